(* BRIDGE between the representation-free specification (Model/Spec.v) and the end-to-end theorems
   about the executable roaring-bitmap index (Proofs/RoaringHolders.v), for builders whose fields
   use the default container (any of the four parsers) or the pattern container.

   fields := the descriptors of the configured fields (name, container kind, parser).

   1. ac_dict_strings / ac_text_strings   the pattern helpers against Spec.strings_of
   2. sat_conj_conj_sat_r   Spec.sat_conj fields parsers q sc = Some (conj_sat_r q cj conts)
   3. roaring_index_correct_spec ...   the end-to-end theorems restated against Model/Spec.v only
   4. accepted documents denote (default fields; refuted for pattern fields with nil values)
   5. the hypotheses are needed: vm_compute witnesses. *)
From Coq Require Import List NArith ZArith Bool Lia Permutation.
From BE Require Import Model.GoTypes Model.GoVal Model.Parsers Model.Index Model.Spec Model.Roaring.
From BE Require Import Proofs.ParsersProof Proofs.DenoteProof Proofs.IndexBuildInv.
From BE Require Proofs.IndexCorrect Proofs.SpecBridge.
From BE Require Import Proofs.RoaringProof Proofs.RoaringHolders.
From BE Require Gen.IdsGen Proofs.IdsProof.
Import ListNotations.
Local Open Scope N_scope.

(* ================================================================== *)
(* 0. descriptors of the configured fields                             *)
(* ================================================================== *)

(* the pattern container has no parser; its descriptor carries the library's default one *)
Definition cont_fdesc (fc : fname * rcontainer) : fdesc :=
  match snd fc with
  | RCDefault p _ _ _ => {| fd_name := fst fc; fd_cont := CDefault; fd_parser := p |}
  | RCAc _ _ _ => {| fd_name := fst fc; fd_cont := CAc; fd_parser := PCommon |}
  end.
Definition conts_fields (conts : list (fname * rcontainer)) : list fdesc := map cont_fdesc conts.

Lemma cont_fdesc_name fc : fd_name (cont_fdesc fc) = fst fc.
Proof. destruct fc as [f c]. destruct c; reflexivity. Qed.

Lemma find_field_conts f conts :
  find_field f (conts_fields conts) = option_map (fun c => cont_fdesc (f, c)) (alookup N.eqb f conts).
Proof.
  unfold find_field, conts_fields. induction conts as [|[f0 c] conts IH]; cbn [map find alookup]; [reflexivity|].
  rewrite cont_fdesc_name. cbn [fst]. rewrite N.eqb_sym. destruct (N.eqb_spec f f0) as [->|]; [reflexivity|exact IH].
Qed.

Lemma field_desc_conts parsers f conts c : alookup N.eqb f conts = Some c ->
  field_desc (conts_fields conts) parsers f = cont_fdesc (f, c).
Proof. intros H. unfold field_desc. rewrite find_field_conts, H. reflexivity. Qed.

(* ================================================================== *)
(* 1. the pattern helpers against Spec.strings_of                      *)
(* ================================================================== *)

(* a nil slice has no elements (true of every Go value; the gval model does not enforce it) *)
Definition nil_no_elems (v : gval) : Prop := is_nil_value v = true -> elems v = [].

Lemma pmap_strs_unm vs ss : all_some (map str_scalar vs) = Some ss ->
  pmap_list (fun e => match e with VStr s => POk s | _ => PUnmodelled end) vs = POk ss.
Proof.
  revert ss. induction vs as [|v vs IH]; intros ss; cbn [map all_some pmap_list].
  - intros [= <-]. reflexivity.
  - destruct v; cbn [str_scalar]; try discriminate.
    destruct (all_some (map str_scalar vs)) as [ss'|]; cbn [option_map]; [|discriminate].
    intros [= <-]. rewrite (IH ss' eq_refl). reflexivity.
Qed.
Lemma pmap_strs_err vs ss : all_some (map str_scalar vs) = Some ss ->
  pmap_list (fun e => match e with VStr s => POk s | _ => PErr end) vs = POk ss.
Proof.
  revert ss. induction vs as [|v vs IH]; intros ss; cbn [map all_some pmap_list].
  - intros [= <-]. reflexivity.
  - destruct v; cbn [str_scalar]; try discriminate.
    destruct (all_some (map str_scalar vs)) as [ss'|]; cbn [option_map]; [|discriminate].
    intros [= <-]. rewrite (IH ss' eq_refl). reflexivity.
Qed.

(* the three shapes strings_of accepts *)
Lemma strings_of_cases v ss : strings_of v = Some ss ->
  (exists s, v = VStr s /\ ss = [s]) \/
  (exists n vs, (v = VSlice TSstring n vs \/ v = VList n vs) /\ all_some (map str_scalar vs) = Some ss).
Proof.
  destruct v as [|k z|w f|s|s|b|t n vs|n vs|t vs|t n]; cbn [strings_of]; try discriminate.
  - intros [= <-]. left. exists s. auto.
  - destruct t; try discriminate. intros H. right. exists n, vs. auto.
  - intros H. right. exists n, vs. auto.
Qed.

Lemma all_some_nil {A B} (g : A -> option B) ss : all_some (map g []) = Some ss -> ss = [].
Proof. cbn. intros [= <-]. reflexivity. Qed.

(* the query text of a supported value: its strings joined by one space *)
Theorem ac_text_strings v ss : nil_no_elems v -> strings_of v = Some ss ->
  rc_query_text v = POk (join_sep [32] ss).
Proof.
  intros Hn H. apply strings_of_cases in H. destruct H as [(s & -> & ->)|(n & vs & Hv & Hs)]; [reflexivity|].
  destruct n.
  - assert (vs = []) as -> by (destruct Hv as [-> | ->]; apply Hn; reflexivity).
    apply all_some_nil in Hs. subst ss. destruct Hv as [-> | ->]; reflexivity.
  - destruct Hv as [-> | ->].
    + unfold rc_query_text. change (nil_interface (VSlice TSstring false vs)) with (@POk bool false). cbn [pbind].
      unfold ac_query_text. cbn [type_of].
      change (ty_in Gen.TypeSwitchGen.sw_BuildAcMatchContent Tstring TSstring) with false.
      change (ty_in Gen.TypeSwitchGen.sw_BuildAcMatchContent TSstring TSstring) with true. cbv iota.
      rewrite (pmap_strs_unm _ _ Hs). reflexivity.
    + unfold rc_query_text. change (nil_interface (VList false vs)) with (@POk bool false). cbn [pbind].
      unfold ac_query_text. cbn [type_of].
      change (ty_in Gen.TypeSwitchGen.sw_BuildAcMatchContent Tstring TSiface) with false.
      change (ty_in Gen.TypeSwitchGen.sw_BuildAcMatchContent TSstring TSiface) with false.
      change (ty_in Gen.TypeSwitchGen.sw_BuildAcMatchContent TSiface TSiface) with true. cbv iota.
      rewrite (pmap_strs_err _ _ Hs). reflexivity.
Qed.

(* the keywords of a supported expression value: its strings *)
Theorem ac_keywords_strings e ks : nil_no_elems (e_val e) -> strings_of (e_val e) = Some ks -> ac_keywords e = ks.
Proof.
  intros Hn H. unfold ac_keywords. apply strings_of_cases in H. destruct H as [(s & -> & ->)|(n & vs & Hv & Hs)]; [reflexivity|].
  destruct n.
  - assert (vs = []) as -> by (destruct Hv as [E|E]; rewrite E in Hn; apply Hn; reflexivity).
    apply all_some_nil in Hs. subst ks. destruct Hv as [-> | ->]; reflexivity.
  - destruct Hv as [-> | ->].
    + change (nil_interface (VSlice TSstring false vs)) with (@POk bool false). cbv iota.
      unfold ac_parse_dict. cbn [type_of].
      change (ty_in Gen.TypeSwitchGen.sw_ParseAcMatchDict Tstring TSstring) with false.
      change (ty_in Gen.TypeSwitchGen.sw_ParseAcMatchDict TSuint8 TSstring) with false.
      change (ty_in Gen.TypeSwitchGen.sw_ParseAcMatchDict TSstring TSstring) with true. cbv iota.
      rewrite (pmap_strs_unm _ _ Hs). reflexivity.
    + change (nil_interface (VList false vs)) with (@POk bool false). cbv iota.
      unfold ac_parse_dict. cbn [type_of].
      change (ty_in Gen.TypeSwitchGen.sw_ParseAcMatchDict Tstring TSiface) with false.
      change (ty_in Gen.TypeSwitchGen.sw_ParseAcMatchDict TSuint8 TSiface) with false.
      change (ty_in Gen.TypeSwitchGen.sw_ParseAcMatchDict TSstring TSiface) with false.
      change (ty_in Gen.TypeSwitchGen.sw_ParseAcMatchDict TSiface TSiface) with true. cbv iota.
      rewrite (pmap_strs_err _ _ Hs). reflexivity.
Qed.

(* ================================================================== *)
(* 2. one conjunction: Spec.sat_conj = RoaringHolders.conj_sat_r       *)
(* ================================================================== *)

(* hypotheses on an expression value / an assigned value, by the descriptor of the field:
   default container: well formed, inside the modelled fragment (as in SpecBridge);
   pattern container: a nil slice has no elements; assigned values are SUPPORTED (denote) *)
Definition expr_good_fd (fd : fdesc) (e : expr) : Prop :=
  match fd_cont fd with
  | CDefault => wf_val (e_val e) /\ SpecBridge.val_mod (fd_parser fd) (e_val e)
  | CAc => nil_no_elems (e_val e)
  | CRange => False
  end.
Definition asg_good_fd (fd : fdesc) (v : gval) : Prop :=
  match fd_cont fd with
  | CDefault => wf_val v /\ SpecBridge.asg_mod (fd_parser fd) v /\ assign_sem fd v <> None
  | CAc => nil_no_elems v /\ assign_sem fd v <> None
  | CRange => False
  end.

(* satisfaction of the expressions es on one configured field *)
Definition fsat_r (q : assignment) (f : fname) (c : rcontainer) (es : list expr) : bool :=
  match c with
  | RCDefault p _ _ _ => match rc_query_ids p (field_val q f) with POk ids => field_sat p ids es | _ => false end
  | RCAc _ _ _ => match rc_query_text (field_val q f) with POk t => field_sat_g (kw_hit t) es | _ => false end
  end.

Lemma conj_sat_field_r_fsat q cj f c : conj_sat_field_r q cj (f, c) = fsat_r q f c (field_exprs f cj).
Proof. destruct c; reflexivity. Qed.

Lemma rc_query_ids_parse_assign p v : rc_query_ids p v = parse_assign p v.
Proof.
  unfold rc_query_ids. destruct p; cbn [parse_assign];
    unfold common_parse_assign, number_parse_assign, strhash_parse_assign, numrange_parse_assign;
    destruct (nil_interface v) as [[|]| | | |]; reflexivity.
Qed.

Lemma fsat_r_nil q f c : query_ok q (f, c) -> fsat_r q f c [] = true.
Proof.
  unfold query_ok. cbn [fst snd]. destruct c as [p wc inc exc|wc inc exc]; cbn [fsat_r].
  - intros [ids ->]. reflexivity.
  - intros [t ->]. reflexivity.
Qed.

Lemma expr_hit_desc F1 P1 F2 P2 q f s :
  field_desc F1 P1 f = field_desc F2 P2 f -> expr_hit F1 P1 q f s = expr_hit F2 P2 q f s.
Proof. unfold expr_hit. intros ->. reflexivity. Qed.

(* Spec's per-field computation (two oexists and the flag test) against field_sat_g, for any hit rule h *)
Section FieldG.
  Variables (fd : fdesc) (h : expr -> bool) (eh : esem -> option bool) (hb : esem -> bool).
  Hypothesis Heh : forall s, eh s = Some (hb s).

  Lemma field_bridge_g : forall es l,
    (forall e s, In e es -> expr_sem fd e = Some s -> h e = hb s) ->
    all_some (map (fun e => option_map (fun s => (e_incl e, s)) (expr_sem fd e)) es) = Some l ->
    oexists (fun ie : bool * esem => if fst ie then Some false else eh (snd ie)) l
      = Some (existsb (fun e => negb (e_incl e) && h e) es) /\
    oexists (fun ie : bool * esem => if fst ie then eh (snd ie) else Some false) l
      = Some (existsb (fun e => e_incl e && h e) es) /\
    existsb (@fst bool esem) l = existsb e_incl es.
  Proof.
    induction es as [|e es IH]; intros l Hh; cbn [map all_some].
    - intros [= <-]. cbn. auto.
    - destruct (expr_sem fd e) as [s|] eqn:Es; cbn [option_map]; [|discriminate].
      destruct (all_some (map (fun e0 => option_map (fun s0 => (e_incl e0, s0)) (expr_sem fd e0)) es)) as [l'|] eqn:El;
        cbn [option_map]; [|discriminate].
      intros [= <-].
      destruct (IH l' (fun e0 s0 H => Hh e0 s0 (or_intror H)) eq_refl) as (I1 & I2 & I3).
      pose proof (Hh e s (or_introl eq_refl) Es) as He.
      cbn [oexists existsb fst snd]. rewrite I1, I2, I3, He, Heh.
      destruct (e_incl e); cbn [obind negb andb orb]; auto.
  Qed.

  Lemma field_bridge_g_sat es l :
    (forall e s, In e es -> expr_sem fd e = Some s -> h e = hb s) ->
    all_some (map (fun e => option_map (fun s => (e_incl e, s)) (expr_sem fd e)) es) = Some l ->
    obind (oexists (fun ie : bool * esem => if fst ie then Some false else eh (snd ie)) l) (fun excluded =>
    obind (oexists (fun ie : bool * esem => if fst ie then eh (snd ie) else Some false) l) (fun included =>
      Some (negb excluded && (negb (existsb (@fst bool esem) l) || included))))
    = Some (field_sat_g h es).
  Proof.
    intros Hh Hl. destruct (field_bridge_g es l Hh Hl) as (I1 & I2 & I3). rewrite I1, I2, I3.
    cbn [obind]. unfold field_sat_g. rewrite andb_comm. reflexivity.
  Qed.
End FieldG.

Lemma alookupN_In {V} f (m : list (N * V)) v : alookup N.eqb f m = Some v -> In (f, v) m.
Proof.
  induction m as [|[g w] m IH]; cbn [alookup]; [discriminate|]. destruct (N.eqb_spec f g) as [->|].
  - intros [= ->]. left. reflexivity.
  - intros H. right. apply IH. exact H.
Qed.
Lemma In_alookupN {V} f (m : list (N * V)) v : NoDup (map fst m) -> In (f, v) m -> alookup N.eqb f m = Some v.
Proof.
  induction m as [|[g w] m IH]; cbn [alookup map fst]; intros Hnd Hin; [destruct Hin|].
  inversion Hnd as [|? ? Hna Hnd']; subst. destruct Hin as [E|Hin].
  - inversion E; subst. rewrite N.eqb_refl. reflexivity.
  - destruct (N.eqb_spec f g) as [->|]; [|apply IH; assumption].
    exfalso. apply Hna. apply in_map_iff. exists (g, v). auto.
Qed.
Lemma keys_alookupN {V} f (m : list (N * V)) : In f (map fst m) -> exists v, alookup N.eqb f m = Some v.
Proof.
  induction m as [|[g w] m IH]; cbn [alookup map fst]; [intros []|].
  destruct (N.eqb_spec f g) as [->|Hne]; [eexists; reflexivity|]. intros [E|H]; [congruence|apply IH; exact H].
Qed.

(* the assigned value of one PATTERN field: query text and Spec.expr_hit *)
Lemma assigned_cases_ac fields parsers q f fd :
  field_desc fields parsers f = fd -> fd_cont fd = CAc ->
  (forall v, In (f, v) q -> asg_good_fd fd v) ->
  exists t hb,
    rc_query_text (field_val q f) = POk t /\
    (forall s, expr_hit fields parsers q f s = Some (hb s)) /\
    (forall e s, nil_no_elems (e_val e) -> expr_sem fd e = Some s -> kw_hit t e = hb s).
Proof.
  intros Hfd Hc Hq. unfold expr_hit, field_val. rewrite SpecBridge.lookup_assign_alookup, Hfd.
  destruct (alookup N.eqb f q) as [v|] eqn:E.
  - apply alookupN_In in E. specialize (Hq v E). unfold asg_good_fd in Hq. rewrite Hc in Hq. destruct Hq as [Hn Hs].
    unfold assign_sem in *. rewrite Hc in *. destruct (strings_of v) as [ss|] eqn:Ess; [|congruence].
    exists (join_sep [32] ss), (fun s => Spec.hit s (QText (join_sep [32] ss))).
    split; [apply ac_text_strings; assumption|]. split; [reflexivity|].
    intros e s Hne. unfold expr_sem. rewrite Hc. destruct (e_op e); try discriminate.
    destruct (strings_of (e_val e)) as [ks|] eqn:Ek; [|discriminate]. intros [= <-].
    unfold kw_hit. rewrite (ac_keywords_strings e ks Hne Ek). reflexivity.
  - exists [], (fun _ => false). split; [reflexivity|]. split; [reflexivity|]. intros e s _ _. apply kw_hit_nil.
Qed.

Section Conj.
  Variables (conts : list (fname * rcontainer)) (parsers : fname -> parser_kind) (q : assignment).

  (* satisfaction of one field entry of a conjunction (the field is configured) *)
  Definition gsat (fe : fname * list expr) : bool :=
    match alookup N.eqb (fst fe) conts with Some c => fsat_r q (fst fe) c (snd fe) | None => false end.

  Lemma spec_field_default f p wc inc exc es l :
    alookup N.eqb f conts = Some (RCDefault p wc inc exc) ->
    (forall e, In e es -> expr_good_fd (field_desc (conts_fields conts) parsers f) e) ->
    (forall v, In (f, v) q -> asg_good_fd (field_desc (conts_fields conts) parsers f) v) ->
    all_some (map (fun e => option_map (fun s => (e_incl e, s)) (expr_sem (field_desc (conts_fields conts) parsers f) e)) es) = Some l ->
    obind (oexists (fun ie : bool * esem => if fst ie then Some false else expr_hit (conts_fields conts) parsers q f (snd ie)) l) (fun excluded =>
    obind (oexists (fun ie : bool * esem => if fst ie then expr_hit (conts_fields conts) parsers q f (snd ie) else Some false) l) (fun included =>
      Some (negb excluded && (negb (existsb (@fst bool esem) l) || included))))
    = Some (fsat_r q f (RCDefault p wc inc exc) es).
  Proof.
    intros Hl He Hq Hsem.
    pose proof (field_desc_conts parsers f conts _ Hl) as Hfd. cbn [cont_fdesc fst snd] in Hfd.
    assert (Hfd' : field_desc (conts_fields conts) parsers f = field_desc [] (fun _ => p) f) by (rewrite Hfd; reflexivity).
    destruct (SpecBridge.assigned_cases (fun _ => p) q f) as (ids & hb & Hp & Hh & Hv).
    { intros v Hin. specialize (Hq v Hin). rewrite Hfd in Hq. exact Hq. }
    cbn [fsat_r]. rewrite rc_query_ids_parse_assign.
    change (parse_assign p (field_val q f) = POk ids) in Hp. rewrite Hp.
    apply (SpecBridge.field_bridge_sat p (field_desc (conts_fields conts) parsers f) ids
             (expr_hit (conts_fields conts) parsers q f) hb); [| |exact Hsem].
    - intros s. rewrite (expr_hit_desc _ _ [] (fun _ => p) q f s Hfd'). apply Hh.
    - intros e s Hin Hs. specialize (He e Hin). rewrite Hfd in He. destruct He as [Hw Hm].
      apply Hv; [exact Hw|exact Hm|]. rewrite Hfd in Hs. exact Hs.
  Qed.

  Lemma spec_field_ac f wc inc exc es l :
    alookup N.eqb f conts = Some (RCAc wc inc exc) ->
    (forall e, In e es -> expr_good_fd (field_desc (conts_fields conts) parsers f) e) ->
    (forall v, In (f, v) q -> asg_good_fd (field_desc (conts_fields conts) parsers f) v) ->
    all_some (map (fun e => option_map (fun s => (e_incl e, s)) (expr_sem (field_desc (conts_fields conts) parsers f) e)) es) = Some l ->
    obind (oexists (fun ie : bool * esem => if fst ie then Some false else expr_hit (conts_fields conts) parsers q f (snd ie)) l) (fun excluded =>
    obind (oexists (fun ie : bool * esem => if fst ie then expr_hit (conts_fields conts) parsers q f (snd ie) else Some false) l) (fun included =>
      Some (negb excluded && (negb (existsb (@fst bool esem) l) || included))))
    = Some (fsat_r q f (RCAc wc inc exc) es).
  Proof.
    intros Hl He Hq Hsem.
    pose proof (field_desc_conts parsers f conts _ Hl) as Hfd. cbn [cont_fdesc fst snd] in Hfd.
    destruct (assigned_cases_ac (conts_fields conts) parsers q f _ Hfd eq_refl) as (t & hb & Ht & Hh & Hv).
    { intros v Hin. specialize (Hq v Hin). rewrite Hfd in Hq. exact Hq. }
    cbn [fsat_r]. rewrite Ht.
    apply (field_bridge_g_sat (field_desc (conts_fields conts) parsers f) (kw_hit t)
             (expr_hit (conts_fields conts) parsers q f) hb Hh); [|exact Hsem].
    intros e s Hin Hs. specialize (He e Hin). rewrite Hfd in He, Hs. apply Hv; [exact He|exact Hs].
  Qed.

  (* Spec.sat_conj, field entry by field entry *)
  Lemma sat_conj_gsat : forall cj sc,
    (forall f es, In (f, es) cj -> In f (map fst conts)) ->
    (forall f es e, In (f, es) cj -> In e es -> expr_good_fd (field_desc (conts_fields conts) parsers f) e) ->
    (forall f es v, In (f, es) cj -> In (f, v) q -> asg_good_fd (field_desc (conts_fields conts) parsers f) v) ->
    conj_sem (conts_fields conts) parsers cj = Some sc ->
    sat_conj (conts_fields conts) parsers q sc = Some (forallb gsat cj).
  Proof.
    induction cj as [|[f es] cj IH]; intros sc Hk He Hq Hs.
    - cbv in Hs. inversion Hs; subst. reflexivity.
    - apply SpecBridge.conj_sem_cons in Hs. destruct Hs as (l & sc' & Hl & Hs' & ->).
      specialize (IH sc' (fun f' es' H => Hk f' es' (or_intror H)) (fun f' es' e H => He f' es' e (or_intror H))
                     (fun f' es' v H => Hq f' es' v (or_intror H)) Hs').
      destruct (keys_alookupN f conts (Hk f es (or_introl eq_refl))) as [c Hc].
      assert (Hg : gsat (f, es) = fsat_r q f c es) by (unfold gsat; cbn [fst snd]; rewrite Hc; reflexivity).
      unfold sat_conj in *. cbn [oforall fst snd]. rewrite IH. cbn [forallb]. rewrite Hg.
      destruct c as [p wc inc exc|wc inc exc].
      + rewrite (spec_field_default f p wc inc exc es l Hc (fun e H => He f es e (or_introl eq_refl) H)
                   (fun v H => Hq f es v (or_introl eq_refl) H) Hl). reflexivity.
      + rewrite (spec_field_ac f wc inc exc es l Hc (fun e H => He f es e (or_introl eq_refl) H)
                   (fun v H => Hq f es v (or_introl eq_refl) H) Hl). reflexivity.
  Qed.

  (* ... and the index's field-by-field test over the CONFIGURED fields *)
  Lemma gsat_conj_sat_r cj :
    NoDup (map fst conts) -> NoDup (map fst cj) ->
    (forall f es, In (f, es) cj -> In f (map fst conts)) ->
    (forall f c, In (f, c) conts -> alookup N.eqb f cj = None -> query_ok q (f, c)) ->
    forallb gsat cj = conj_sat_r q cj conts.
  Proof.
    intros Hnc Hncj Hk Hok. unfold conj_sat_r. apply eq_iff_eq_true. rewrite !forallb_forall. split.
    - intros H [f c] Hin. rewrite conj_sat_field_r_fsat. unfold field_exprs.
      destruct (alookup N.eqb f cj) as [es|] eqn:El.
      + apply alookupN_In in El. specialize (H (f, es) El). unfold gsat in H. cbn [fst snd] in H.
        rewrite (In_alookupN f conts c Hnc Hin) in H. exact H.
      + apply fsat_r_nil. apply Hok; assumption.
    - intros H [f es] Hin. unfold gsat. cbn [fst snd].
      destruct (keys_alookupN f conts (Hk f es Hin)) as [c Hc]. rewrite Hc.
      specialize (H (f, c) (alookupN_In _ _ _ Hc)). rewrite conj_sat_field_r_fsat in H.
      unfold field_exprs in H. rewrite (In_alookupN f cj es Hncj Hin) in H. exact H.
  Qed.

  (* MAIN (per conjunction) *)
  Theorem sat_conj_conj_sat_r cj sc :
    NoDup (map fst conts) -> NoDup (map fst cj) ->
    (forall f es, In (f, es) cj -> In f (map fst conts)) ->
    (forall f es e, In (f, es) cj -> In e es -> expr_good_fd (field_desc (conts_fields conts) parsers f) e) ->
    (forall f es v, In (f, es) cj -> In (f, v) q -> asg_good_fd (field_desc (conts_fields conts) parsers f) v) ->
    (forall f c, In (f, c) conts -> alookup N.eqb f cj = None -> query_ok q (f, c)) ->
    conj_sem (conts_fields conts) parsers cj = Some sc ->
    sat_conj (conts_fields conts) parsers q sc = Some (conj_sat_r q cj conts).
  Proof.
    intros Hnc Hncj Hk He Hq Hok Hs.
    rewrite (sat_conj_gsat cj sc Hk He Hq Hs), (gsat_conj_sat_r cj Hnc Hncj Hk Hok). reflexivity.
  Qed.
End Conj.

(* ================================================================== *)
(* 3. END TO END against Model/Spec.v                                  *)
(* ================================================================== *)

(* ---- the descriptors never change, whatever the outcome of AddDocument ---- *)
Lemma rc_encode_fdesc c id e c' f : rc_encode c id e = POk c' -> cont_fdesc (f, c') = cont_fdesc (f, c).
Proof.
  destruct c as [p wc inc exc|wc inc exc]; cbn [rc_encode].
  - destruct (e_op e); try discriminate. destruct (parse_value p (e_val e)); cbn [pbind]; try discriminate.
    destruct (e_incl e); intros [= <-]; reflexivity.
  - destruct (nil_interface (e_val e)) as [[|]| | | |]; cbn [pbind]; try discriminate.
    + intros [= <-]. reflexivity.
    + destruct (e_op e); try discriminate. destruct (ac_parse_dict (e_val e)); cbn [pbind]; try discriminate.
      destruct (e_incl e); intros [= <-]; reflexivity.
Qed.

Lemma rc_add_wildcard_fdesc c id f : cont_fdesc (f, rc_add_wildcard c id) = cont_fdesc (f, c).
Proof. destruct c; reflexivity. Qed.

Lemma encode_exprs_fdesc f es : forall c id w c' w',
  encode_exprs c id es w = POk (c', w') -> cont_fdesc (f, c') = cont_fdesc (f, c).
Proof.
  induction es as [|e es IH]; intros c id w c' w' H; cbn [encode_exprs] in H.
  - inversion H; subst. reflexivity.
  - destruct (rc_encode c id e) as [c1| | | |] eqn:E1; cbn [pbind] in H; try discriminate.
    rewrite (IH _ _ _ _ _ H). eapply rc_encode_fdesc; exact E1.
Qed.

Lemma encode_fields_fdesc conts id cj : conts_fields (fst (encode_fields conts id cj)) = conts_fields conts.
Proof.
  unfold conts_fields. induction conts as [|[f c] rest IH]; cbn [encode_fields]; [reflexivity|].
  destruct (encode_fields rest id cj) as [rest' r]. cbn [fst] in IH.
  destruct (alookup N.eqb f cj) as [[|e es]|]; cbn [fst map]; try (rewrite IH, rc_add_wildcard_fdesc; reflexivity).
  destruct (encode_exprs c id (e :: es) true) as [[c' w]| | | |] eqn:Ee; cbn [fst map]; try reflexivity.
  rewrite IH. f_equal. destruct w; [rewrite rc_add_wildcard_fdesc|]; eapply encode_exprs_fdesc; exact Ee.
Qed.

Lemma radd_conjs_fdesc ics : forall b d, conts_fields (rb_conts (fst (radd_conjs b d ics))) = conts_fields (rb_conts b).
Proof.
  induction ics as [|[i cj] rest IH]; intros b d; cbn [radd_conjs]; [reflexivity|].
  destruct (IdsGen.NewConjunctionID i d) as [id|]; [|reflexivity].
  match goal with |- context [if ?g then _ else _] => destruct g end; [reflexivity|].
  pose proof (encode_fields_fdesc (rb_conts b) id cj) as Hk.
  destruct (encode_fields (rb_conts b) id cj) as [conts' r]. cbn [fst] in Hk.
  destruct r as [[]| | | |]; cbn [fst rb_conts]; try exact Hk. rewrite IH. exact Hk.
Qed.

Lemma radd_document_fdesc b d : conts_fields (rb_conts (fst (radd_document b d))) = conts_fields (rb_conts b).
Proof.
  unfold radd_document. destruct (d_conjs d) as [|cj0 cjs] eqn:Ed; [reflexivity|]. rewrite <- Ed.
  pose proof (radd_conjs_fdesc (indexed_from 0%Z (d_conjs d)) b (d_id d)) as Hk.
  destruct (radd_conjs b (d_id d) (indexed_from 0%Z (d_conjs d))) as [b1 o]. cbn [fst] in Hk.
  destruct o; cbn [fst rb_conts]; exact Hk.
Qed.

Theorem radd_documents_fdesc ds : forall b, conts_fields (rb_conts (fst (radd_documents b ds))) = conts_fields (rb_conts b).
Proof.
  induction ds as [|d ds IH]; intros b; cbn [radd_documents]; [reflexivity|].
  pose proof (radd_document_fdesc b d) as H1. destruct (radd_document b d) as [b1 o]. cbn [fst] in H1.
  pose proof (IH b1) as H2. destruct (radd_documents b1 ds) as [b2 os]. cbn [fst] in *. congruence.
Qed.

(* ---- hypotheses on documents and assignments, against the descriptors only ---- *)
Definition doc_good_r (fields : list fdesc) (d : doc) : Prop :=
  forall cj f es e fd, In cj (d_conjs d) -> In (f, es) cj -> In e es -> find_field f fields = Some fd -> expr_good_fd fd e.
(* every value assigned to a configured field is well formed, modelled and SUPPORTED *)
Definition asg_good_r (fields : list fdesc) (q : assignment) : Prop :=
  forall f v fd, In (f, v) q -> find_field f fields = Some fd -> asg_good_fd fd v.

Lemma field_desc_find fields parsers f fd : find_field f fields = Some fd -> field_desc fields parsers f = fd.
Proof. unfold field_desc. intros ->. reflexivity. Qed.

Lemma find_field_In conts f c : alookup N.eqb f conts = Some c -> find_field f (conts_fields conts) = Some (cont_fdesc (f, c)).
Proof. intros H. rewrite find_field_conts, H. reflexivity. Qed.

(* supported assigned values are accepted by the containers *)
Lemma asg_good_query_ok conts q : NoDup (map fst conts) -> asg_good_r (conts_fields conts) q -> Forall (query_ok q) conts.
Proof.
  intros Hnd Hq. apply Forall_forall. intros [f c] Hin.
  pose proof (In_alookupN f conts c Hnd Hin) as Hl. pose proof (find_field_In _ _ _ Hl) as Hf.
  unfold query_ok, field_val. cbn [fst snd].
  destruct (alookup N.eqb f q) as [v|] eqn:E.
  - apply alookupN_In in E. specialize (Hq f v _ E Hf). unfold asg_good_fd in Hq.
    destruct c as [p wc inc exc|wc inc exc]; cbn [cont_fdesc fst snd fd_cont fd_parser] in Hq.
    + destruct Hq as (Hw & Hm & Hs).
      destruct (assign_sem {| fd_name := f; fd_cont := CDefault; fd_parser := p |} v) as [qs|] eqn:Ea; [|congruence].
      exists (qsem_ids qs). rewrite rc_query_ids_parse_assign.
      apply (SpecBridge.parse_assign_sem (fun _ => p) f v qs Hw Hm Ea).
    + destruct Hq as [Hn Hs]. unfold assign_sem in Hs. cbn [fd_cont] in Hs.
      destruct (strings_of v) as [ss|] eqn:Ess; [|congruence]. eexists. apply ac_text_strings; eassumption.
  - destruct c as [p wc inc exc|wc inc exc].
    + exists []. rewrite rc_query_ids_parse_assign. apply IndexCorrect.parse_assign_nil.
    + exists []. reflexivity.
Qed.

Lemma In_nth_error {A} (l : list A) x : In x l -> exists k, nth_error l k = Some x.
Proof. apply In_nth_error. Qed.

Section EndToEnd.
  Variables (b0 b : rbuilder) (ds : list doc) (os : list add_out) (parsers : fname -> parser_kind) (q : assignment).
  Let fields := conts_fields (rb_conts b0).

  Hypothesis Hnew : all_new_r (rb_conts b0).
  Hypothesis Hne : rb_conts b0 <> [].                       (* at least one configured field *)
  Hypothesis Hkeys : NoDup (map fst (rb_conts b0)).         (* ConfigureField keeps one container per field *)
  Hypothesis Hadd : radd_documents b0 ds = (b, os).
  Hypothesis Hok : Forall (eq AddOk) os.
  Hypothesis Hids : NoDup (map d_id ds).
  Hypothesis Hcjs : forall d cj, In d ds -> In cj (d_conjs d) -> NoDup (map fst cj).   (* a conjunction is a map *)
  Hypothesis Hdocs : forall d, In d ds -> doc_good_r fields d.
  Hypothesis Hq : asg_good_r fields q.

  Lemma fields_b : conts_fields (rb_conts b) = fields.
  Proof. pose proof (radd_documents_fdesc ds b0) as H. rewrite Hadd in H. exact H. Qed.

  Lemma keys_b : map fst (rb_conts b) = map fst (rb_conts b0).
  Proof. pose proof (radd_documents_keys ds b0) as H. rewrite Hadd in H. exact H. Qed.

  Lemma query_ok_b : Forall (query_ok q) (rb_conts b).
  Proof. apply asg_good_query_ok; [rewrite keys_b; exact Hkeys|rewrite fields_b; exact Hq]. Qed.

  (* one accepted conjunction: the specification's verdict is the index's test *)
  Lemma sat_conj_accepted d cj sc : In d ds -> In cj (d_conjs d) ->
    conj_sem fields parsers cj = Some sc ->
    sat_conj fields parsers q sc = Some (conj_sat_r q cj (rb_conts b)).
  Proof.
    intros Hd Hcj Hs. rewrite <- fields_b in Hs |- *.
    destruct (In_nth_error _ _ Hcj) as [k Hk].
    destruct (radd_documents_accepted _ _ _ _ Hadd Hok) as [_ Hall]. destruct (Hall d Hd) as [_ Hacc].
    destruct (Hacc k cj Hk) as [_ Hconf].
    apply sat_conj_conj_sat_r.
    - rewrite keys_b. exact Hkeys.
    - exact (Hcjs d cj Hd Hcj).
    - intros f es Hfe. rewrite keys_b. eapply Hconf; exact Hfe.
    - intros f es e Hfe He.
      assert (Hf : In f (map fst (rb_conts b))) by (rewrite keys_b; eapply Hconf; exact Hfe).
      destruct (keys_alookupN f _ Hf) as [c Hc]. pose proof (find_field_In _ _ _ Hc) as Hfd.
      rewrite (field_desc_find _ parsers f _ Hfd). rewrite fields_b in Hfd. exact (Hdocs d Hd cj f es e _ Hcj Hfe He Hfd).
    - intros f es v Hfe Hv.
      assert (Hf : In f (map fst (rb_conts b))) by (rewrite keys_b; eapply Hconf; exact Hfe).
      destruct (keys_alookupN f _ Hf) as [c Hc]. pose proof (find_field_In _ _ _ Hc) as Hfd.
      rewrite (field_desc_find _ parsers f _ Hfd). rewrite fields_b in Hfd. exact (Hq f v _ Hv Hfd).
    - intros f c Hin _. exact (Forall_In _ _ _ query_ok_b Hin).
    - exact Hs.
  Qed.

  (* RAW RESULT, unhinted: retrieval succeeds; the id of the k-th conjunction of an accepted document is
     reported iff the specification says the conjunction is satisfied; nothing else is reported *)
  Theorem roaring_index_correct_spec :
    exists s, sc_retrieve (rb_conts b) q fresh_scanner = POk s /\
      (forall d k cj x sc, In d ds -> nth_error (d_conjs d) k = Some cj ->
         IdsGen.NewConjunctionID (Z.of_nat k) (d_id d) = Some x ->
         conj_sem fields parsers cj = Some sc ->
         (bm_mem x (sc_res s) = true <-> sat_conj fields parsers q sc = Some true)) /\
      (forall x, bm_mem x (sc_res s) = true ->
         exists d k cj, In d ds /\ nth_error (d_conjs d) k = Some cj /\
                        IdsGen.NewConjunctionID (Z.of_nat k) (d_id d) = Some x).
  Proof.
    destruct (sc_retrieve_total_r q (rb_conts b) fresh_scanner query_ok_b) as [s Hs]. exists s. split; [exact Hs|]. split.
    - intros d k cj x sc Hd Hk Hx Hsc.
      rewrite (roaring_index_correct_r _ _ _ _ _ _ _ _ _ _ Hnew Hne Hadd Hok Hids Hd Hk Hx Hs).
      rewrite (sat_conj_accepted d cj sc Hd (nth_error_In _ _ Hk) Hsc). split; congruence.
    - intros x Hx. destruct (roaring_index_sound_r _ _ _ _ _ _ _ Hnew Hadd Hok Hs Hx) as (d & cj & i & Hd & Hi & E).
      apply indexed_from_in' in Hi. destruct Hi as [Hge Hn]. rewrite Z.sub_0_r in Hn.
      exists d, (Z.to_nat i), cj. split; [exact Hd|]. split; [exact Hn|]. rewrite Z2Nat.id by exact Hge. exact E.
  Qed.

  (* the same for a retrieval that is given (any scanner outcome s) *)
  Corollary roaring_index_correct_spec' s d k cj x sc :
    sc_retrieve (rb_conts b) q fresh_scanner = POk s ->
    In d ds -> nth_error (d_conjs d) k = Some cj -> IdsGen.NewConjunctionID (Z.of_nat k) (d_id d) = Some x ->
    conj_sem fields parsers cj = Some sc ->
    (bm_mem x (sc_res s) = true <-> sat_conj fields parsers q sc = Some true).
  Proof.
    intros Hs Hd Hk Hx Hsc.
    rewrite (roaring_index_correct_r _ _ _ _ _ _ _ _ _ _ Hnew Hne Hadd Hok Hids Hd Hk Hx Hs).
    rewrite (sat_conj_accepted d cj sc Hd (nth_error_In _ _ Hk) Hsc). split; congruence.
  Qed.

  (* RAW RESULT, hinted: ... iff the document was hinted and the specification says satisfied *)
  Theorem roaring_index_hinted_spec hs s0 :
    sc_with_hint (rb_maxconj b) fresh_scanner hs = Some s0 ->
    exists s, sc_retrieve (rb_conts b) q s0 = POk s /\
      (forall d k cj x sc, In d ds -> nth_error (d_conjs d) k = Some cj ->
         IdsGen.NewConjunctionID (Z.of_nat k) (d_id d) = Some x ->
         conj_sem fields parsers cj = Some sc ->
         (bm_mem x (sc_res s) = true <-> In (d_id d) hs /\ sat_conj fields parsers q sc = Some true)) /\
      (forall x, bm_mem x (sc_res s) = true ->
         exists d k cj, In d ds /\ In (d_id d) hs /\ nth_error (d_conjs d) k = Some cj /\
                        IdsGen.NewConjunctionID (Z.of_nat k) (d_id d) = Some x).
  Proof.
    intros Hh. destruct (sc_retrieve_total_r q (rb_conts b) s0 query_ok_b) as [s Hs]. exists s. split; [exact Hs|].
    assert (HP : forall d, existsb (Z.eqb (d_id d)) hs = true <-> In (d_id d) hs).
    { intros d. rewrite existsb_exists. split.
      - intros (h & Hin & E). apply Z.eqb_eq in E. subst h. exact Hin.
      - intros Hin. exists (d_id d). split; [exact Hin|apply Z.eqb_refl]. }
    split.
    - intros d k cj x sc Hd Hk Hx Hsc.
      rewrite (roaring_index_hinted_doc_r _ _ _ _ _ _ _ _ _ _ _ _ Hnew Hadd Hok Hids Hd Hk Hx Hh Hs).
      rewrite (sat_conj_accepted d cj sc Hd (nth_error_In _ _ Hk) Hsc), andb_true_iff, HP. split; intros [A B]; split; congruence.
    - intros x Hx. pose proof Hx as Hx'.
      destruct (roaring_index_hinted_sound_r _ _ _ _ _ _ _ _ _ Hnew Hne Hadd Hok Hh Hs Hx) as (_ & d & cj & i & Hd & Hi & E).
      apply indexed_from_in' in Hi. destruct Hi as [Hge Hn]. rewrite Z.sub_0_r in Hn.
      rewrite <- (Z2Nat.id i Hge) in E.
      rewrite (roaring_index_hinted_doc_r _ _ _ _ _ _ _ _ _ _ _ _ Hnew Hadd Hok Hids Hd Hn E Hh Hs) in Hx'.
      apply andb_prop in Hx'. destruct Hx' as [Hp _]. apply HP in Hp.
      exists d, (Z.to_nat i), cj. auto.
  Qed.

  (* DOCUMENTS: when every conjunction of the accepted documents denotes, Retrieve reports document d iff
     the specification says one of its conjunctions is satisfied (unhinted), resp. d was hinted as well *)
  Hypothesis Hden : forall d cj, In d ds -> In cj (d_conjs d) -> conj_sem fields parsers cj <> None.

  Lemma sat_some d : In d ds ->
    ((exists k cj, nth_error (d_conjs d) k = Some cj /\ conj_sat_r q cj (rb_conts b) = true) <->
     (exists cj sc, In cj (d_conjs d) /\ conj_sem fields parsers cj = Some sc /\ sat_conj fields parsers q sc = Some true)).
  Proof.
    intros Hd. split.
    - intros (k & cj & Hk & Hs). pose proof (nth_error_In _ _ Hk) as Hcj.
      destruct (conj_sem fields parsers cj) as [sc|] eqn:Esc; [|exfalso; exact (Hden d cj Hd Hcj Esc)].
      exists cj, sc. split; [exact Hcj|]. split; [exact Esc|]. rewrite (sat_conj_accepted d cj sc Hd Hcj Esc), Hs. reflexivity.
    - intros (cj & sc & Hcj & Esc & Hs). destruct (In_nth_error _ _ Hcj) as [k Hk]. exists k, cj. split; [exact Hk|].
      rewrite (sat_conj_accepted d cj sc Hd Hcj Esc) in Hs. congruence.
  Qed.

  Theorem roaring_docs_correct_spec :
    exists s, sc_retrieve (rb_conts b) q fresh_scanner = POk s /\
      (forall d, In d ds ->
         (bm_mem (doc_key (d_id d)) (docs_of_raw (sc_res s)) = true <->
          exists cj sc, In cj (d_conjs d) /\ conj_sem fields parsers cj = Some sc /\ sat_conj fields parsers q sc = Some true)) /\
      (forall y, bm_mem y (docs_of_raw (sc_res s)) = true -> exists d, In d ds /\ y = doc_key (d_id d)).
  Proof.
    destruct (sc_retrieve_total_r q (rb_conts b) fresh_scanner query_ok_b) as [s Hs]. exists s. split; [exact Hs|].
    destruct (roaring_docs_correct_r _ _ _ _ _ _ Hnew Hne Hadd Hok Hids Hs) as [H1 H2]. split; [|exact H2].
    intros d Hd. rewrite (H1 d Hd). apply sat_some. exact Hd.
  Qed.

  Theorem roaring_docs_hinted_spec hs s0 :
    sc_with_hint (rb_maxconj b) fresh_scanner hs = Some s0 ->
    exists s, sc_retrieve (rb_conts b) q s0 = POk s /\
      (forall d, In d ds ->
         (bm_mem (doc_key (d_id d)) (docs_of_raw (sc_res s)) = true <->
          In (d_id d) hs /\
          exists cj sc, In cj (d_conjs d) /\ conj_sem fields parsers cj = Some sc /\ sat_conj fields parsers q sc = Some true)) /\
      (forall y, bm_mem y (docs_of_raw (sc_res s)) = true -> exists d, In d ds /\ In (d_id d) hs /\ y = doc_key (d_id d)).
  Proof.
    intros Hh. destruct (sc_retrieve_total_r q (rb_conts b) s0 query_ok_b) as [s Hs]. exists s. split; [exact Hs|].
    destruct (roaring_docs_hinted_r _ _ _ _ _ _ _ _ Hnew Hne Hadd Hok Hids Hh Hs) as [H1 H2]. split; [|exact H2].
    intros d Hd. rewrite (H1 d Hd), (sat_some d Hd). reflexivity.
  Qed.
End EndToEnd.

(* ================================================================== *)
(* 3b. minimal hypotheses on the assignment                            *)
(* ================================================================== *)

(* When retrieval returns, nothing has to be assumed about the values assigned to fields the
   conjunction does not mention: either every field's container accepted its value, or the early break
   fired -- and then some CONSULTED field's result already misses the id. *)
Lemma sc_retrieve_ok_or_out conts q : forall s0 s x,
  sc_inited s0 = true -> sc_inv s0 -> sc_retrieve conts q s0 = POk s ->
  fields_ok q conts \/ bm_mem x (sc_res s0) = false \/
  exists fc pl, In fc conts /\ rc_retrieve (snd fc) (field_val q (fst fc)) = POk pl /\ bm_mem x pl = false.
Proof.
  induction conts as [|[f c] rest IH]; intros s0 s x Hi Hv H; cbn [sc_retrieve] in H.
  - left. constructor.
  - destruct (sc_ended s0) eqn:E.
    + right. left. apply bm_empty_mem. apply Hv. exact E.
    + change (match alookup N.eqb f q with Some v => v | None => VNil end) with (field_val q f) in H.
      destruct (rc_retrieve c (field_val q f)) as [pl| | | |] eqn:Er; cbn [pbind] in H; try discriminate.
      destruct (IH _ _ x (sc_merge_inited _ pl Hi) (sc_merge_inv _ _) H) as [Hok|[Hout|(fc & pl' & Hin & Hr & Hm)]].
      * left. constructor; [|exact Hok]. exists pl. exact Er.
      * rewrite sc_merge_res_inited in Hout by exact Hi. apply andb_false_iff in Hout. destruct Hout as [Hout|Hout].
        -- right. left. exact Hout.
        -- right. right. exists (f, c), pl. split; [left; reflexivity|]. split; [exact Er|exact Hout].
      * right. right. exists fc, pl'. split; [right; exact Hin|]. split; assumption.
Qed.

Lemma sc_retrieve_fresh_ok_or_out conts q s x :
  sc_retrieve conts q fresh_scanner = POk s ->
  fields_ok q conts \/
  exists fc pl, In fc conts /\ rc_retrieve (snd fc) (field_val q (fst fc)) = POk pl /\ bm_mem x pl = false.
Proof.
  destruct conts as [|[f c] rest]; [intros _; left; constructor|]. intros H.
  cbn [sc_retrieve fresh_scanner sc_ended] in H.
  change (match alookup N.eqb f q with Some v => v | None => VNil end) with (field_val q f) in H.
  destruct (rc_retrieve c (field_val q f)) as [pl| | | |] eqn:Er; cbn [pbind] in H; try discriminate.
  change ({| sc_inited := false; sc_ended := false; sc_res := [] |}) with fresh_scanner in H.
  destruct (sc_retrieve_ok_or_out rest q (sc_merge fresh_scanner pl) s x eq_refl (sc_merge_inv _ _) H)
    as [Hok|[Hout|(fc & pl' & Hin & Hr & Hm)]].
  - left. constructor; [|exact Hok]. exists pl. exact Er.
  - right. exists (f, c), pl. split; [left; reflexivity|]. split; [exact Er|].
    change (sc_res (sc_merge fresh_scanner pl)) with (bm_or [] pl) in Hout. rewrite bm_mem_or, bm_mem_nil in Hout. exact Hout.
  - right. exists fc, pl'. split; [right; exact Hin|]. split; assumption.
Qed.

Lemma retrieve_ok_query_ok q f c pl : rc_retrieve c (field_val q f) = POk pl -> query_ok q (f, c).
Proof.
  unfold query_ok. cbn [fst snd]. destruct c as [p wc inc exc|wc inc exc].
  - rewrite rc_retrieve_default_eq. destruct (rc_query_ids p (field_val q f)) as [ids| | | |]; cbn [pbind]; try discriminate.
    intros _. exists ids. reflexivity.
  - rewrite rc_retrieve_ac_eq. destruct (rc_query_text (field_val q f)) as [t| | | |]; cbn [pbind]; try discriminate.
    intros _. exists t. reflexivity.
Qed.

Lemma fields_ok_query_ok q conts : fields_ok q conts -> Forall (query_ok q) conts.
Proof. unfold fields_ok. apply Forall_impl. intros [f c] [pl H]. cbn [fst snd] in H. eapply retrieve_ok_query_ok; exact H. Qed.

Lemma conj_sat_r_gsat conts q cj :
  NoDup (map fst cj) -> (forall f es, In (f, es) cj -> In f (map fst conts)) ->
  conj_sat_r q cj conts = true -> forallb (gsat conts q) cj = true.
Proof.
  intros Hncj Hk H. unfold conj_sat_r in H. rewrite forallb_forall in *. intros [f es] Hin. unfold gsat. cbn [fst snd].
  destruct (keys_alookupN f conts (Hk f es Hin)) as [c Hc]. rewrite Hc.
  specialize (H (f, c) (alookupN_In _ _ _ Hc)). rewrite conj_sat_field_r_fsat in H.
  unfold field_exprs in H. rewrite (In_alookupN f cj es Hncj Hin) in H. exact H.
Qed.

(* RAW RESULT with minimal hypotheses: only the conjunction at hand and the values assigned to ITS fields *)
Theorem roaring_index_correct_spec_min b0 b ds os parsers q s d k cj x sc :
  all_new_r (rb_conts b0) -> rb_conts b0 <> [] -> NoDup (map fst (rb_conts b0)) ->
  radd_documents b0 ds = (b, os) -> Forall (eq AddOk) os -> NoDup (map d_id ds) ->
  In d ds -> nth_error (d_conjs d) k = Some cj -> IdsGen.NewConjunctionID (Z.of_nat k) (d_id d) = Some x ->
  NoDup (map fst cj) ->
  (forall f es e fd, In (f, es) cj -> In e es -> find_field f (conts_fields (rb_conts b0)) = Some fd -> expr_good_fd fd e) ->
  (forall f es v fd, In (f, es) cj -> In (f, v) q -> find_field f (conts_fields (rb_conts b0)) = Some fd -> asg_good_fd fd v) ->
  sc_retrieve (rb_conts b) q fresh_scanner = POk s ->
  conj_sem (conts_fields (rb_conts b0)) parsers cj = Some sc ->
  (bm_mem x (sc_res s) = true <-> sat_conj (conts_fields (rb_conts b0)) parsers q sc = Some true).
Proof.
  intros Hnew Hne Hkeys Hadd Hok Hids Hd Hk Hx Hncj Hexp Hasg Hs Hsc.
  assert (Hfb : conts_fields (rb_conts b) = conts_fields (rb_conts b0)).
  { pose proof (radd_documents_fdesc ds b0) as H. rewrite Hadd in H. exact H. }
  assert (Hkb : map fst (rb_conts b) = map fst (rb_conts b0)).
  { pose proof (radd_documents_keys ds b0) as H. rewrite Hadd in H. exact H. }
  assert (Hkeysb : NoDup (map fst (rb_conts b))) by (rewrite Hkb; exact Hkeys).
  destruct (radd_documents_accepted _ _ _ _ Hadd Hok) as [_ Hall]. destruct (Hall d Hd) as [_ Hacc].
  destruct (Hacc k cj Hk) as [_ Hconf].
  assert (Hconfb : forall f es, In (f, es) cj -> In f (map fst (rb_conts b))) by (intros f es H; rewrite Hkb; eapply Hconf; exact H).
  assert (Hgs : sat_conj (conts_fields (rb_conts b0)) parsers q sc = Some (forallb (gsat (rb_conts b) q) cj)).
  { rewrite <- Hfb in Hsc |- *. apply sat_conj_gsat; [exact Hconfb| | |exact Hsc].
    - intros f es e Hfe He. destruct (keys_alookupN f _ (Hconfb f es Hfe)) as [c Hc]. pose proof (find_field_In _ _ _ Hc) as Hfd.
      rewrite (field_desc_find _ parsers f _ Hfd). rewrite Hfb in Hfd. exact (Hexp f es e _ Hfe He Hfd).
    - intros f es v Hfe Hv. destruct (keys_alookupN f _ (Hconfb f es Hfe)) as [c Hc]. pose proof (find_field_In _ _ _ Hc) as Hfd.
      rewrite (field_desc_find _ parsers f _ Hfd). rewrite Hfb in Hfd. exact (Hasg f es v _ Hfe Hv Hfd). }
  rewrite Hgs. rewrite (roaring_index_correct_r _ _ _ _ _ _ _ _ _ _ Hnew Hne Hadd Hok Hids Hd Hk Hx Hs).
  split.
  - intros H. rewrite (conj_sat_r_gsat _ _ _ Hncj Hconfb H). reflexivity.
  - intros H. assert (Hg : forallb (gsat (rb_conts b) q) cj = true) by congruence. clear H.
    destruct (sc_retrieve_fresh_ok_or_out _ _ _ x Hs) as [Hfo|((h & c) & pl & Hin & Hr & Hm)].
    + rewrite <- (gsat_conj_sat_r (rb_conts b) q cj Hkeysb Hncj Hconfb); [exact Hg|].
      intros f c Hin _. exact (Forall_In _ _ _ (fields_ok_query_ok _ _ Hfo) Hin).
    + exfalso. cbn [fst snd] in Hr.
      pose proof (radd_documents_repr_r ds _ _ _ _ Hadd Hok (all_new_r_repr _ Hnew)) as R.
      pose proof (docs_db_unique ds d k cj x Hids Hd Hk Hx) as U.
      assert (Hfm : field_mem q x (h, c) = false) by (unfold field_mem; cbn [fst snd]; rewrite Hr; exact Hm).
      unfold conts_repr_r in R. rewrite Forall_forall in R. specialize (R (h, c) Hin). cbn [fst snd] in R.
      rewrite (field_mem_repr_r q x h c _ cj R U), conj_sat_field_r_fsat in Hfm.
      unfold field_exprs in Hfm. destruct (alookup N.eqb h cj) as [es|] eqn:El.
      * apply alookupN_In in El. rewrite forallb_forall in Hg. specialize (Hg (h, es) El). unfold gsat in Hg. cbn [fst snd] in Hg.
        rewrite (In_alookupN h _ c Hkeysb Hin) in Hg. congruence.
      * rewrite (fsat_r_nil q h c (retrieve_ok_query_ok q h c pl Hr)) in Hfm. discriminate.
Qed.

(* ================================================================== *)
(* 4. accepted documents denote                                        *)
(* ================================================================== *)

Lemma pmap_strs_unm_inv vs : forall ks,
  pmap_list (fun e => match e with VStr s => POk s | _ => PUnmodelled end) vs = POk ks -> all_some (map str_scalar vs) = Some ks.
Proof.
  induction vs as [|v vs IH]; intros ks; cbn [pmap_list map all_some].
  - intros [= <-]. reflexivity.
  - destruct v; cbn [pbind str_scalar]; try discriminate.
    destruct (pmap_list _ vs) as [ks'| | | |]; cbn [pbind]; try discriminate.
    intros [= <-]. rewrite (IH ks' eq_refl). reflexivity.
Qed.
Lemma pmap_strs_err_inv vs : forall ks,
  pmap_list (fun e => match e with VStr s => POk s | _ => PErr end) vs = POk ks -> all_some (map str_scalar vs) = Some ks.
Proof.
  induction vs as [|v vs IH]; intros ks; cbn [pmap_list map all_some].
  - intros [= <-]. reflexivity.
  - destruct v; cbn [pbind str_scalar]; try discriminate.
    destruct (pmap_list _ vs) as [ks'| | | |]; cbn [pbind]; try discriminate.
    intros [= <-]. rewrite (IH ks' eq_refl). reflexivity.
Qed.
Lemma ac_dict_strings v ks : ac_parse_dict v = POk ks -> strings_of v = Some ks.
Proof.
  destruct v as [|k z|w f|s|s|b|t n vs|n vs|t vs|t n]; unfold ac_parse_dict; cbn [type_of strings_of].
  - discriminate.
  - destruct k; discriminate.
  - destruct w; discriminate.
  - intros [= <-]. reflexivity.
  - discriminate.
  - discriminate.
  - destruct t; try discriminate. apply pmap_strs_unm_inv.
  - apply pmap_strs_err_inv.
  - destruct t; discriminate.
  - destruct t; discriminate.
Qed.

(* what EncodeExpr accepts, by descriptor (independent of the container's contents) *)
Definition expr_ok_fd (fd : fdesc) (e : expr) : bool :=
  match fd_cont fd with
  | CDefault => expr_ok (fd_parser fd) e
  | CAc => match nil_interface (e_val e) with
           | POk true => true                (* a nil value is accepted whatever the operator *)
           | POk false => match e_op e with OpEQ => is_ok (ac_parse_dict (e_val e)) | _ => false end
           | _ => false
           end
  | CRange => false
  end.

Lemma rc_encode_ok c id e c' f : rc_encode c id e = POk c' -> expr_ok_fd (cont_fdesc (f, c)) e = true.
Proof.
  destruct c as [p wc inc exc|wc inc exc]; cbn [rc_encode]; unfold expr_ok_fd; cbn [cont_fdesc fst snd fd_cont fd_parser].
  - unfold expr_ok. destruct (e_op e); try discriminate. destruct (parse_value p (e_val e)); cbn [pbind]; try discriminate. reflexivity.
  - destruct (nil_interface (e_val e)) as [[|]| | | |]; cbn [pbind]; try discriminate; [reflexivity|].
    destruct (e_op e); try discriminate. destruct (ac_parse_dict (e_val e)); cbn [pbind]; try discriminate. reflexivity.
Qed.

Lemma encode_exprs_ok f es : forall c id w c' w',
  encode_exprs c id es w = POk (c', w') -> forallb (expr_ok_fd (cont_fdesc (f, c))) es = true.
Proof.
  induction es as [|e es IH]; intros c id w c' w' H; cbn [encode_exprs forallb] in *; [reflexivity|].
  destruct (rc_encode c id e) as [c1| | | |] eqn:E1; cbn [pbind] in H; try discriminate.
  rewrite (rc_encode_ok _ _ _ _ f E1). cbn [andb]. rewrite <- (rc_encode_fdesc _ _ _ _ f E1). eapply IH; exact H.
Qed.

Lemma encode_fields_ok conts : forall id cj conts',
  encode_fields conts id cj = (conts', POk tt) ->
  forall f c, In (f, c) conts -> forallb (expr_ok_fd (cont_fdesc (f, c))) (field_exprs f cj) = true.
Proof.
  induction conts as [|[f0 c0] rest IH]; intros id cj conts' H f c Hin; [destruct Hin|].
  cbn [encode_fields] in H. unfold field_exprs.
  destruct (alookup N.eqb f0 cj) as [[|e es]|] eqn:El.
  - destruct (encode_fields rest id cj) as [rest' r] eqn:Er. inversion H; subst.
    destruct Hin as [E|Hin]; [inversion E; subst; rewrite El; reflexivity|]. exact (IH _ _ _ Er f c Hin).
  - destruct (encode_exprs c0 id (e :: es) true) as [[c' w]| | | |] eqn:Ee; try (inversion H; fail).
    destruct (encode_fields rest id cj) as [rest' r] eqn:Er. inversion H; subst.
    destruct Hin as [E|Hin]; [|exact (IH _ _ _ Er f c Hin)].
    inversion E; subst. rewrite El. eapply encode_exprs_ok; exact Ee.
  - destruct (encode_fields rest id cj) as [rest' r] eqn:Er. inversion H; subst.
    destruct Hin as [E|Hin]; [inversion E; subst; rewrite El; reflexivity|]. exact (IH _ _ _ Er f c Hin).
Qed.

Definition conj_exprs_ok (fields : list fdesc) (cj : conj) : Prop :=
  forall fd, In fd fields -> forallb (expr_ok_fd fd) (field_exprs (fd_name fd) cj) = true.

Lemma radd_conjs_exprs_ok ics : forall b d b', radd_conjs b d ics = (b', AddOk) ->
  forall i cj, In (i, cj) ics -> conj_exprs_ok (conts_fields (rb_conts b)) cj.
Proof.
  induction ics as [|[i cj] rest IH]; intros b d b' H i' cj' Hin; [destruct Hin|]. cbn [radd_conjs] in H.
  destruct (IdsGen.NewConjunctionID i d) as [id|]; [|inversion H].
  match type of H with (if ?g then _ else _) = _ => destruct g end; [inversion H|].
  pose proof (encode_fields_fdesc (rb_conts b) id cj) as Hk.
  destruct (encode_fields (rb_conts b) id cj) as [conts' r] eqn:Ee. cbn [fst] in Hk.
  destruct r as [[]| | | |]; try (inversion H; fail).
  destruct Hin as [E|Hin].
  - inversion E; subst i' cj'. intros fd Hfd. unfold conts_fields in Hfd. apply in_map_iff in Hfd.
    destruct Hfd as ([f c] & <- & Hfc). rewrite cont_fdesc_name. cbn [fst]. eapply encode_fields_ok; eassumption.
  - specialize (IH _ _ _ H i' cj' Hin). cbn [rb_conts] in IH. rewrite Hk in IH. exact IH.
Qed.

Lemma radd_document_exprs_ok b d b' : radd_document b d = (b', AddOk) ->
  forall cj, In cj (d_conjs d) -> conj_exprs_ok (conts_fields (rb_conts b)) cj.
Proof.
  unfold radd_document. intros H cj Hcj. destruct (d_conjs d) as [|cj0 cjs] eqn:Ed; [inversion H|].
  rewrite <- Ed in *. clear Ed.
  destruct (radd_conjs b (d_id d) (indexed_from 0%Z (d_conjs d))) as [b1 o] eqn:Ea.
  destruct o; inversion H; subst. destruct (In_nth_error _ _ Hcj) as [k Hk].
  apply (indexed_from_nth' _ 0%Z) in Hk. eapply radd_conjs_exprs_ok; eassumption.
Qed.

Theorem radd_documents_exprs_ok ds : forall b b' os, radd_documents b ds = (b', os) -> Forall (eq AddOk) os ->
  forall d cj, In d ds -> In cj (d_conjs d) -> conj_exprs_ok (conts_fields (rb_conts b)) cj.
Proof.
  induction ds as [|d ds IH]; intros b b' os H Hok d' cj Hd' Hcj; [destruct Hd'|]. cbn [radd_documents] in H.
  destruct (radd_document b d) as [b1 o] eqn:E1. destruct (radd_documents b1 ds) as [b2 os'] eqn:E2.
  inversion H; subst. inversion Hok as [|? ? Ho Hos]; subst.
  destruct Hd' as [<-|Hd'].
  - eapply radd_document_exprs_ok; eassumption.
  - pose proof (radd_document_fdesc b d) as Hk. rewrite E1 in Hk. cbn [fst] in Hk. rewrite <- Hk. eapply IH; eassumption.
Qed.

(* ACCEPTED DOCUMENTS DENOTE: every conjunction of an accepted document has a meaning, provided the
   expressions on PATTERN fields carry non-nil values (a nil value is accepted by the builder whatever
   its type and operator, and the specification gives it no meaning: see Witness.ac_nil_not_denoted) *)
Theorem accepted_denote_r b0 b ds os parsers :
  NoDup (map fst (rb_conts b0)) ->
  radd_documents b0 ds = (b, os) -> Forall (eq AddOk) os ->
  (forall d cj, In d ds -> In cj (d_conjs d) -> NoDup (map fst cj)) ->
  (forall d, In d ds -> doc_good_r (conts_fields (rb_conts b0)) d) ->
  (forall d cj f es e fd, In d ds -> In cj (d_conjs d) -> In (f, es) cj -> In e es ->
     find_field f (conts_fields (rb_conts b0)) = Some fd -> fd_cont fd = CAc -> nil_interface (e_val e) = POk false) ->
  forall d cj, In d ds -> In cj (d_conjs d) -> conj_sem (conts_fields (rb_conts b0)) parsers cj <> None.
Proof.
  intros Hkeys Hadd Hok Hcjs Hdocs Hnn d cj Hd Hcj.
  apply SpecBridge.conj_sem_not_none. intros f es e Hfe He.
  destruct (In_nth_error _ _ Hcj) as [k Hk].
  destruct (radd_documents_accepted _ _ _ _ Hadd Hok) as [_ Hall]. destruct (Hall d Hd) as [_ Hacc].
  destruct (Hacc k cj Hk) as [_ Hconf].
  destruct (keys_alookupN f _ (Hconf f es Hfe)) as [c Hc]. pose proof (find_field_In _ _ _ Hc) as Hfd.
  rewrite (field_desc_find _ parsers f _ Hfd).
  pose proof (radd_documents_exprs_ok _ _ _ _ Hadd Hok d cj Hd Hcj (cont_fdesc (f, c))) as Hexp.
  rewrite cont_fdesc_name in Hexp. cbn [fst] in Hexp.
  assert (Hin : In (cont_fdesc (f, c)) (conts_fields (rb_conts b0))).
  { unfold conts_fields. apply in_map. apply alookupN_In. exact Hc. }
  specialize (Hexp Hin). unfold field_exprs in Hexp. rewrite (In_alookupN f cj es (Hcjs d cj Hd Hcj) Hfe) in Hexp.
  rewrite forallb_forall in Hexp. specialize (Hexp e He).
  pose proof (Hdocs d Hd cj f es e _ Hcj Hfe He Hfd) as Hg.
  pose proof (Hnn d cj f es e _ Hd Hcj Hfe He Hfd) as Hnil.
  unfold expr_ok_fd in Hexp. unfold expr_good_fd in Hg.
  destruct c as [p wc inc exc|wc inc exc]; cbn [cont_fdesc fst snd fd_cont fd_parser] in *.
  - destruct Hg as [Hw Hm]. apply (SpecBridge.expr_ok_expr_sem (fun _ => p) f e Hw Hm). exact Hexp.
  - rewrite (Hnil eq_refl) in Hexp. unfold expr_sem. cbn [fd_cont].
    destruct (e_op e); try discriminate.
    destruct (ac_parse_dict (e_val e)) as [ks| | | |] eqn:Ek; try discriminate.
    rewrite (ac_dict_strings _ _ Ek). discriminate.
Qed.

(* default containers only: no side condition *)
Corollary accepted_denote_default b0 b ds os parsers :
  NoDup (map fst (rb_conts b0)) ->
  Forall (fun fd => fd_cont fd = CDefault) (conts_fields (rb_conts b0)) ->
  radd_documents b0 ds = (b, os) -> Forall (eq AddOk) os ->
  (forall d cj, In d ds -> In cj (d_conjs d) -> NoDup (map fst cj)) ->
  (forall d, In d ds -> doc_good_r (conts_fields (rb_conts b0)) d) ->
  forall d cj, In d ds -> In cj (d_conjs d) -> conj_sem (conts_fields (rb_conts b0)) parsers cj <> None.
Proof.
  intros Hkeys Hdef Hadd Hok Hcjs Hdocs. eapply accepted_denote_r; try eassumption.
  intros d cj f es e fd _ _ _ _ Hfd Hc. exfalso. unfold find_field in Hfd. apply find_some in Hfd. destruct Hfd as [Hin _].
  rewrite Forall_forall in Hdef. specialize (Hdef fd Hin). congruence.
Qed.

(* DOCUMENTS, default containers only: "every conjunction denotes" follows from acceptance *)
Corollary roaring_docs_correct_spec_default b0 b ds os parsers q :
  all_new_r (rb_conts b0) -> rb_conts b0 <> [] -> NoDup (map fst (rb_conts b0)) ->
  Forall (fun fd => fd_cont fd = CDefault) (conts_fields (rb_conts b0)) ->
  radd_documents b0 ds = (b, os) -> Forall (eq AddOk) os -> NoDup (map d_id ds) ->
  (forall d cj, In d ds -> In cj (d_conjs d) -> NoDup (map fst cj)) ->
  (forall d, In d ds -> doc_good_r (conts_fields (rb_conts b0)) d) ->
  asg_good_r (conts_fields (rb_conts b0)) q ->
  exists s, sc_retrieve (rb_conts b) q fresh_scanner = POk s /\
    (forall d, In d ds ->
       (bm_mem (doc_key (d_id d)) (docs_of_raw (sc_res s)) = true <->
        exists cj sc, In cj (d_conjs d) /\ conj_sem (conts_fields (rb_conts b0)) parsers cj = Some sc /\
                      sat_conj (conts_fields (rb_conts b0)) parsers q sc = Some true)) /\
    (forall y, bm_mem y (docs_of_raw (sc_res s)) = true -> exists d, In d ds /\ y = doc_key (d_id d)).
Proof.
  intros Hnew Hne Hkeys Hdef Hadd Hok Hids Hcjs Hdocs Hq.
  eapply roaring_docs_correct_spec; try eassumption.
  eapply accepted_denote_default; eassumption.
Qed.

(* ================================================================== *)
(* 4b. sat_hits                                                        *)
(* ================================================================== *)

(* the roaring builder's admission rule: at least one conjunction, index and document id inside the codec *)
Definition rr_docok (d : doc) : bool :=
  negb (match d_conjs d with [] => true | _ => false end)
  && (Z.of_nat (length (d_conjs d)) <=? 256)%Z && (Z.abs (d_id d) <=? 36028797018963967)%Z.

(* (document id, position) of a reported conjunction id *)
Definition rr_pair (x : N) : Z * Z := (IdsGen.ConjunctionID_DocID x, Z.of_N (IdsGen.ConjunctionID_Idx x)).

Lemma rr_pair_id k d x : IdsGen.NewConjunctionID (Z.of_nat k) d = Some x -> rr_pair x = (d, Z.of_nat k).
Proof.
  intros H. destruct (IdsProof.NewConjunctionID_some_inrange _ _ _ H) as [Hd Hi].
  destruct (IdsProof.rr_roundtrip _ d Hd Hi) as (c & E & _ & D & I). rewrite H in E. inversion E; subst c.
  unfold rr_pair. rewrite D, I. f_equal. lia.
Qed.

Definition satb_r fields (parsers : fname -> parser_kind) (q : assignment) (sc : sconj) : bool :=
  match sat_conj fields parsers q sc with Some b => b | None => false end.

Definition hits_of_r fields parsers pol docok (q : assignment) (ds : list doc) : list (Z * (Z * Z)) :=
  flat_map (fun d => flat_map (fun ic : Z * sconj =>
                        if satb_r fields parsers q (snd ic) then [(d_id d, (fst ic, sconj_size (snd ic)))] else [])
                      (doc_sem fields parsers pol docok d)) ds.

Lemma sat_hits_total_r fields parsers pol docok ds q :
  (forall d ic, In d ds -> In ic (doc_sem fields parsers pol docok d) -> sat_conj fields parsers q (snd ic) <> None) ->
  sat_hits fields parsers pol docok ds q = Some (hits_of_r fields parsers pol docok q ds).
Proof.
  intros H. unfold sat_hits, hits_of_r.
  rewrite (SpecBridge.all_some_total _ (fun d => flat_map (fun ic : Z * sconj =>
                        if satb_r fields parsers q (snd ic) then [(d_id d, (fst ic, sconj_size (snd ic)))] else [])
                      (doc_sem fields parsers pol docok d))).
  - cbn [option_map]. rewrite <- flat_map_concat_map. reflexivity.
  - intros d Hd.
    rewrite (SpecBridge.all_some_total _ (fun ic : Z * sconj =>
                        if satb_r fields parsers q (snd ic) then [(d_id d, (fst ic, sconj_size (snd ic)))] else [])).
    + cbn [option_map]. rewrite <- flat_map_concat_map. reflexivity.
    + intros ic Hic. specialize (H d ic Hd Hic). unfold satb_r.
      destruct (sat_conj fields parsers q (snd ic)); [reflexivity|congruence].
Qed.

Lemma map_flat_map {A B C} (f : B -> C) (g : A -> list B) l : map f (flat_map g l) = flat_map (fun x => map f (g x)) l.
Proof. induction l as [|a l IH]; cbn [flat_map map]; [reflexivity|]. rewrite map_app, IH. reflexivity. Qed.

Lemma flat_map_ext_in {A B} (f g : A -> list B) l : (forall x, In x l -> f x = g x) -> flat_map f l = flat_map g l.
Proof.
  induction l as [|a l IH]; intros H; cbn [flat_map]; [reflexivity|].
  rewrite (H a) by (left; reflexivity). rewrite IH by (intros; apply H; right; assumption). reflexivity.
Qed.

Section SatHits.
  Variables (b0 b : rbuilder) (ds : list doc) (os : list add_out) (parsers : fname -> parser_kind) (q : assignment) (pol : policy).
  Let fields := conts_fields (rb_conts b0).

  Hypothesis Hnew : all_new_r (rb_conts b0).
  Hypothesis Hne : rb_conts b0 <> [].
  Hypothesis Hkeys : NoDup (map fst (rb_conts b0)).
  Hypothesis Hadd : radd_documents b0 ds = (b, os).
  Hypothesis Hok : Forall (eq AddOk) os.
  Hypothesis Hids : NoDup (map d_id ds).
  Hypothesis Hcjs : forall d cj, In d ds -> In cj (d_conjs d) -> NoDup (map fst cj).
  Hypothesis Hdocs : forall d, In d ds -> doc_good_r fields d.
  Hypothesis Hq : asg_good_r fields q.
  Hypothesis Hden : forall d cj, In d ds -> In cj (d_conjs d) -> conj_sem fields parsers cj <> None.

  Lemma accepted_rr_docok d : In d ds -> rr_docok d = true.
  Proof.
    intros Hd. unfold rr_docok.
    pose proof (accepted_nonempty _ _ _ _ Hadd Hok d Hd) as Hn.
    destruct (radd_documents_accepted _ _ _ _ Hadd Hok) as [_ Hall]. destruct (Hall d Hd) as [_ Hacc].
    destruct (d_conjs d) as [|c cs] eqn:Ec; [congruence|]. cbn [negb andb].
    assert (Hlast : exists cj, nth_error (c :: cs) (length cs) = Some cj).
    { destruct (nth_error (c :: cs) (length cs)) eqn:E; [eexists; reflexivity|]. apply nth_error_None in E. cbn [length] in E. lia. }
    destruct Hlast as [cj Hl]. destruct (Hacc _ _ Hl) as [[x Hx] _].
    destruct (IdsProof.NewConjunctionID_some_inrange _ _ _ Hx) as [Hdr Hir].
    apply andb_true_intro. split; [apply Z.leb_le; cbn [length]; lia|apply Z.leb_le; exact Hdr].
  Qed.

  Let L (d : doc) := map (fun ic : Z * conj => (fst ic, conj_sem fields parsers (snd ic))) (indexed_from 0%Z (d_conjs d)).

  Lemma doc_sem_accepted d : In d ds -> doc_sem fields parsers pol rr_docok d = indexed_conjs pol (L d).
  Proof. intros Hd. unfold doc_sem. rewrite (accepted_rr_docok d Hd). reflexivity. Qed.

  Lemma L_some d : In d ds -> forall x, In x (L d) -> snd x <> None.
  Proof.
    intros Hd x Hx. apply in_map_iff in Hx. destruct Hx as ([i cj] & <- & Hin). cbn [fst snd].
    apply indexed_from_in' in Hin. destruct Hin as [_ Hn]. apply nth_error_In in Hn. apply (Hden d cj Hd Hn).
  Qed.

  Lemma doc_sem_In d i sc : In d ds -> In (i, sc) (doc_sem fields parsers pol rr_docok d) ->
    exists cj, (0 <= i)%Z /\ nth_error (d_conjs d) (Z.to_nat i) = Some cj /\ conj_sem fields parsers cj = Some sc.
  Proof.
    intros Hd Hin. rewrite (doc_sem_accepted d Hd) in Hin. apply SpecBridge.indexed_conjs_In in Hin.
    apply in_map_iff in Hin. destruct Hin as ([j cj] & Ej & Hin). cbn [fst snd] in Ej. inversion Ej; subst j.
    apply indexed_from_in' in Hin. destruct Hin as [Hge Hn]. rewrite Z.sub_0_r in Hn. exists cj. auto.
  Qed.

  Lemma doc_sem_nth d k cj sc : In d ds -> nth_error (d_conjs d) k = Some cj -> conj_sem fields parsers cj = Some sc ->
    In (Z.of_nat k, sc) (doc_sem fields parsers pol rr_docok d).
  Proof.
    intros Hd Hk Hsc. rewrite (doc_sem_accepted d Hd). apply (SpecBridge.indexed_conjs_all pol (L d) (L_some d Hd)).
    unfold L. apply in_map_iff. exists (Z.of_nat k, cj). cbn [fst snd]. rewrite Hsc. split; [reflexivity|].
    apply (indexed_from_nth' _ 0%Z) in Hk. exact Hk.
  Qed.

  (* the reported (document, position) pairs are exactly those of sat_hits *)
  Theorem roaring_sat_hits :
    exists s spec_hits,
      sc_retrieve (rb_conts b) q fresh_scanner = POk s /\
      sat_hits fields parsers pol rr_docok ds q = Some spec_hits /\
      Permutation (map rr_pair (sc_res s)) (map (fun t : Z * (Z * Z) => (fst t, fst (snd t))) spec_hits).
  Proof.
    destruct (roaring_index_correct_spec b0 b ds os parsers q Hnew Hne Hkeys Hadd Hok Hids Hcjs Hdocs Hq) as (s & Hs & Hc & Hsnd).
    exists s, (hits_of_r fields parsers pol rr_docok q ds). split; [exact Hs|].
    assert (Hsat : forall d cj sc, In d ds -> In cj (d_conjs d) -> conj_sem fields parsers cj = Some sc ->
              sat_conj fields parsers q sc = Some (conj_sat_r q cj (rb_conts b))).
    { intros d cj sc Hd Hcj Hsc. eapply sat_conj_accepted; eassumption. }
    split.
    { apply sat_hits_total_r. intros d [i sc] Hd Hin. cbn [snd].
      destruct (doc_sem_In d i sc Hd Hin) as (cj & _ & Hn & Hsc). apply nth_error_In in Hn.
      rewrite (Hsat d cj sc Hd Hn Hsc). discriminate. }
    unfold hits_of_r. rewrite map_flat_map.
    apply NoDup_Permutation.
    - (* reported pairs are distinct *)
      apply SpecBridge.NoDup_map_inj_in.
      + intros x y Hx Hy E. apply bm_mem_In in Hx, Hy.
        destruct (Hsnd x Hx) as (d1 & k1 & c1 & _ & _ & E1). destruct (Hsnd y Hy) as (d2 & k2 & c2 & _ & _ & E2).
        rewrite (rr_pair_id _ _ _ E1), (rr_pair_id _ _ _ E2) in E. inversion E as [[Ed Ek]]. rewrite Ed, Ek in E1. congruence.
      + apply bm_wf_NoDup. eapply sc_retrieve_wf; [|exact Hs]. apply bm_wf_nil.
    - (* specified pairs are distinct *)
      apply (SpecBridge.NoDup_flat_map_keyed _ fst d_id); [| |exact Hids].
      + intros d y Hd Hy. apply in_map_iff in Hy. destruct Hy as (t & <- & Ht). apply in_flat_map in Ht.
        destruct Ht as (ic & _ & Ht). destruct (satb_r fields parsers q (snd ic)); [|destruct Ht]. destruct Ht as [<-|[]]. reflexivity.
      + intros d Hd. rewrite map_flat_map. apply (SpecBridge.NoDup_flat_map_keyed _ snd fst).
        * intros ic y _ Hy. destruct (satb_r fields parsers q (snd ic)); [|destruct Hy]. destruct Hy as [<-|[]]. reflexivity.
        * intros ic _. destruct (satb_r fields parsers q (snd ic)); cbn [map]; repeat constructor. intros [].
        * rewrite (doc_sem_accepted d Hd). destruct (SpecBridge.indexed_conjs_all pol (L d) (L_some d Hd)) as [_ ->].
          unfold L. rewrite map_map. cbn [fst]. apply SpecBridge.indexed_from_fst_NoDup.
    - (* same members *)
      intros p. split.
      + intros Hp. apply in_map_iff in Hp. destruct Hp as (x & <- & Hx). apply bm_mem_In in Hx.
        destruct (Hsnd x Hx) as (d & k & cj & Hd & Hk & Ex). rewrite (rr_pair_id _ _ _ Ex).
        pose proof (nth_error_In _ _ Hk) as Hcj.
        destruct (conj_sem fields parsers cj) as [sc|] eqn:Esc; [|exfalso; exact (Hden d cj Hd Hcj Esc)].
        apply (Hc d k cj x sc Hd Hk Ex Esc) in Hx.
        apply in_flat_map. exists d. split; [exact Hd|]. apply in_map_iff.
        exists (d_id d, (Z.of_nat k, sconj_size sc)). split; [reflexivity|].
        apply in_flat_map. exists (Z.of_nat k, sc). split; [apply (doc_sem_nth d k cj sc Hd Hk Esc)|].
        cbn [fst snd]. unfold satb_r, fields. rewrite Hx. left. reflexivity.
      + intros Hp. apply in_flat_map in Hp. destruct Hp as (d & Hd & Hp). apply in_map_iff in Hp.
        destruct Hp as (t & <- & Ht). apply in_flat_map in Ht. destruct Ht as ([i sc] & Hin & Ht). cbn [fst snd] in Ht.
        destruct (satb_r fields parsers q sc) eqn:Eb; [|destruct Ht]. destruct Ht as [<-|[]]. cbn [fst snd].
        destruct (doc_sem_In d i sc Hd Hin) as (cj & Hge & Hn & Hsc).
        destruct (radd_documents_accepted _ _ _ _ Hadd Hok) as [_ Hall]. destruct (Hall d Hd) as [_ Hacc].
        destruct (Hacc _ _ Hn) as [[x Ex] _].
        apply in_map_iff. exists x. split.
        * rewrite (rr_pair_id _ _ _ Ex), Z2Nat.id by exact Hge. reflexivity.
        * apply bm_mem_In. apply (Hc d (Z.to_nat i) cj x sc Hd Hn Ex Hsc). unfold satb_r, fields in Eb.
          destruct (sat_conj (conts_fields (rb_conts b0)) parsers q sc) as [[|]|]; congruence.
  Qed.
End SatHits.

(* ================================================================== *)
(* 5. builders made by ConfigureField calls: the hypotheses hold       *)
(* ================================================================== *)

Lemma aupdate_keys_in {V} k (g : option V -> V) (m : list (N * V)) x :
  In x (map fst (aupdate N.eqb k g m)) -> x = k \/ In x (map fst m).
Proof.
  induction m as [|[k0 v] m IH]; cbn [aupdate map fst In].
  - intros [H|[]]; auto.
  - destruct (N.eqb_spec k k0) as [->|Hne]; cbn [map fst In]; [tauto|]. intros [H|H]; [tauto|]. apply IH in H. tauto.
Qed.

Lemma aupdate_keys_NoDup {V} k (g : option V -> V) (m : list (N * V)) :
  NoDup (map fst m) -> NoDup (map fst (aupdate N.eqb k g m)).
Proof.
  induction m as [|[k0 v] m IH]; cbn [aupdate map fst]; intros H.
  - constructor; [intros []|constructor].
  - inversion H as [|? ? Hna Hnd]; subst. destruct (N.eqb_spec k k0) as [->|Hne]; cbn [map fst]; [exact H|].
    constructor; [|apply IH; exact Hnd]. intros Hin. apply aupdate_keys_in in Hin. destruct Hin as [E|Hin]; [congruence|contradiction].
Qed.

Lemma configure_all_keys cfg : NoDup (map fst (rb_conts (configure_all cfg))).
Proof.
  unfold configure_all.
  assert (G : forall cfg b, NoDup (map fst (rb_conts b)) ->
            NoDup (map fst (rb_conts (fold_left (fun b c => rb_configure b (fst (fst c)) (snd (fst c)) (snd c)) cfg b)))).
  { induction cfg0 as [|c cfg0 IH]; intros b Hb; cbn [fold_left]; [exact Hb|]. apply IH.
    cbn [rb_configure rb_conts]. apply aupdate_keys_NoDup. exact Hb. }
  apply G. constructor.
Qed.

(* the descriptor a ConfigureField call asks for *)
Definition cfg_fdesc (c : fname * rcont_kind * parser_kind) : fdesc :=
  match snd (fst c) with
  | RDefault => {| fd_name := fst (fst c); fd_cont := CDefault; fd_parser := snd c |}
  | RAc => {| fd_name := fst (fst c); fd_cont := CAc; fd_parser := PCommon |}
  end.

Lemma aupdate_new {V} k (g : option V -> V) (m : list (N * V)) :
  ~ In k (map fst m) -> aupdate N.eqb k g m = m ++ [(k, g None)].
Proof.
  induction m as [|[k0 v] m IH]; cbn [aupdate map fst In app]; intros H; [reflexivity|].
  destruct (N.eqb_spec k k0) as [->|Hne]; [tauto|]. rewrite IH by tauto. reflexivity.
Qed.

(* distinct field names: the configured descriptors, in the order of the calls *)
Lemma configure_all_fields cfg : NoDup (map (fun c => fst (fst c)) cfg) ->
  conts_fields (rb_conts (configure_all cfg)) = map cfg_fdesc cfg.
Proof.
  unfold configure_all. intros Hnd.
  assert (G : forall cfg b, NoDup (map (fun c : fname * rcont_kind * parser_kind => fst (fst c)) cfg) ->
            (forall c, In c cfg -> ~ In (fst (fst c)) (map fst (rb_conts b))) ->
            conts_fields (rb_conts (fold_left (fun b c => rb_configure b (fst (fst c)) (snd (fst c)) (snd c)) cfg b))
            = conts_fields (rb_conts b) ++ map cfg_fdesc cfg).
  { induction cfg0 as [|[[f k] p] cfg0 IH]; intros b Hn Hd; cbn [fold_left map]; [rewrite app_nil_r; reflexivity|].
    cbn [map fst] in Hn. inversion Hn as [|? ? Hna Hn']; subst.
    rewrite IH; [|exact Hn'|].
    - cbn [rb_configure rb_conts fst snd]. rewrite aupdate_new by (apply (Hd (f, k, p)); left; reflexivity).
      unfold conts_fields. rewrite map_app, <- app_assoc. cbn [map app]. f_equal. f_equal. destruct k; reflexivity.
    - intros c Hc Hin. cbn [rb_configure rb_conts fst snd] in Hin. apply aupdate_keys_in in Hin. destruct Hin as [E|Hin].
      + apply Hna. rewrite <- E. apply (in_map (fun c : fname * rcont_kind * parser_kind => fst (fst c))). exact Hc.
      + apply (Hd c); [right; exact Hc|exact Hin]. }
  rewrite G; [reflexivity|exact Hnd|intros c _ []].
Qed.

(* TOP LEVEL: an index built by ConfigureField calls (>= 1, distinct names) followed by accepted AddDocument calls *)
Theorem roaring_configured_correct_spec cfg ds b os parsers q :
  cfg <> [] -> NoDup (map (fun c => fst (fst c)) cfg) ->
  radd_documents (configure_all cfg) ds = (b, os) -> Forall (eq AddOk) os ->
  NoDup (map d_id ds) ->
  (forall d cj, In d ds -> In cj (d_conjs d) -> NoDup (map fst cj)) ->
  (forall d, In d ds -> doc_good_r (map cfg_fdesc cfg) d) ->
  asg_good_r (map cfg_fdesc cfg) q ->
  exists s, sc_retrieve (rb_conts b) q fresh_scanner = POk s /\
    (forall d k cj x sc, In d ds -> nth_error (d_conjs d) k = Some cj ->
       IdsGen.NewConjunctionID (Z.of_nat k) (d_id d) = Some x ->
       conj_sem (map cfg_fdesc cfg) parsers cj = Some sc ->
       (bm_mem x (sc_res s) = true <-> sat_conj (map cfg_fdesc cfg) parsers q sc = Some true)) /\
    (forall x, bm_mem x (sc_res s) = true ->
       exists d k cj, In d ds /\ nth_error (d_conjs d) k = Some cj /\
                      IdsGen.NewConjunctionID (Z.of_nat k) (d_id d) = Some x).
Proof.
  intros Hne Hnd Hadd Hok Hids Hcjs Hdocs Hq. rewrite <- (configure_all_fields cfg Hnd) in *.
  eapply roaring_index_correct_spec; try eassumption.
  - apply configure_all_new.
  - apply configure_all_nonempty. exact Hne.
  - apply configure_all_keys.
Qed.

(* ================================================================== *)
(* 6. the hypotheses are needed (by computation)                       *)
(* ================================================================== *)
Module SpecWitness.
  Definition ps : fname -> parser_kind := fun _ => PCommon.
  Definition ex (i : bool) (v : gval) := {| e_incl := i; e_op := OpEQ; e_val := v |}.
  Definition mk (cjs : list conj) : doc := {| d_id := 1; d_conjs := cjs |}.
  Definition A : text := [97].

  (* per conjunction of every document: (reported by a fresh scanner?, the specification's verdict);
     verdict None = the conjunction has no meaning, Some None = an assigned value is unsupported *)
  Definition report (cfg : list (fname * rcont_kind * parser_kind)) (ds : list doc) (q : assignment)
    : list add_out * option (list (bool * option (option bool))) :=
    let '(b, os) := radd_documents (configure_all cfg) ds in
    let fields := map cfg_fdesc cfg in
    (os,
     match sc_retrieve (rb_conts b) q fresh_scanner with
     | POk s => Some (flat_map (fun d => map (fun ic : Z * conj =>
                    (match IdsGen.NewConjunctionID (fst ic) (d_id d) with Some x => bm_mem x (sc_res s) | None => false end,
                     option_map (sat_conj fields ps q) (conj_sem fields ps (snd ic)))) (indexed_from 0%Z (d_conjs d))) ds)
     | _ => None end).

  (* a conjunction is a MAP (NoDup (map fst cj)): the index reads the first entry of a field, the specification all *)
  Example dup_field_in_conj :
    report [(1, RDefault, PCommon)] [mk [[(1, [ex true (VInt KI 7)]); (1, [ex true (VInt KI 8)])]]] [(1, VInt KI 7)]
    = ([AddOk], Some [(true, Some (Some false))]).
  Proof. vm_compute. reflexivity. Qed.

  (* nil_no_elems on expression values: a "nil slice with an element" is accepted without keywords *)
  Example nil_with_elems_expr :
    report [(2, RAc, PCommon)] [mk [[(2, [ex true (VSlice TSstring true [VStr A])])]]] [(2, VStr A)]
    = ([AddOk], Some [(false, Some (Some true))]).
  Proof. vm_compute. reflexivity. Qed.

  (* nil_no_elems on assigned values *)
  Example nil_with_elems_query :
    report [(2, RAc, PCommon)] [mk [[(2, [ex true (VStr A)])]]] [(2, VSlice TSstring true [VStr A])]
    = ([AddOk], Some [(false, Some (Some true))]).
  Proof. vm_compute. reflexivity. Qed.

  (* SUPPORTED, default field: the common parser skips the unsupported element, the specification refuses the value *)
  Example unsupported_default :
    report [(1, RDefault, PCommon)] [mk [[(1, [ex true (VInt KI 7)])]]] [(1, VList false [VInt KI 7; VBool true])]
    = ([AddOk], Some [(true, Some None)]).
  Proof. vm_compute. reflexivity. Qed.

  (* SUPPORTED, pattern field: an explicit nil interface value is "no text" for the container and
     unsupported for the specification (a MISSING field is fine on both sides) *)
  Example unsupported_ac_nil :
    report [(2, RAc, PCommon)] [mk [[(2, [ex false (VStr [122; 122])])]]] [(2, VNil)]
    = ([AddOk], Some [(true, Some None)]) /\
    report [(2, RAc, PCommon)] [mk [[(2, [ex false (VStr [122; 122])])]]] []
    = ([AddOk], Some [(true, Some (Some true))]).
  Proof. vm_compute. split; reflexivity. Qed.

  (* accepted does NOT imply denoted on pattern fields: nil values are accepted whatever operator / type *)
  Example ac_nil_not_denoted :
    report [(2, RAc, PCommon)]
           [mk [[(2, [{| e_incl := true; e_op := OpGT; e_val := VNil |}])]; [(2, [ex false (VSlice TSint true [])])]]]
           [(2, VStr A)]
    = ([AddOk], Some [(false, None); (true, None)]).
  Proof. vm_compute. reflexivity. Qed.

  (* at least one configured field (finding F14): accepted, satisfied, never reported *)
  Example no_fields : report [] [mk [[]]] [] = ([AddOk], Some [(false, Some (Some true))]).
  Proof. vm_compute. reflexivity. Qed.

  (* a concrete run of the theorem (RoaringHolders.Witness data): reported = verdict wherever there is one *)
  Example run :
    map (report [(1, RDefault, PCommon); (2, RAc, PCommon)] [Witness.d1; Witness.d2]) [Witness.q1; Witness.q2; Witness.q3]
    = [([AddOk; AddOk], Some [(true, Some (Some true)); (true, Some (Some true));
                              (false, Some (Some false)); (false, None); (false, Some (Some false))]);
       ([AddOk; AddOk], Some [(false, Some (Some false)); (false, Some (Some false));
                              (true, Some (Some true)); (false, None); (true, Some (Some true))]);
       ([AddOk; AddOk], Some [(false, Some (Some false)); (true, Some (Some true));
                              (false, Some (Some false)); (false, None); (true, Some (Some true))])].
  Proof. vm_compute. reflexivity. Qed.

  (* sat_hits on the part of that data whose conjunctions all denote (d1 and the first conjunction of d2):
     the reported (document, position) pairs are those of sat_hits *)
  Definition d2' : doc := {| d_id := (-3); d_conjs := [ [(2, [ex true (VSlice TSstring false [VStr [120]; VStr []])])] ] |}.
  Example run_sat_hits :
    let cfg := [(1, RDefault, PCommon); (2, RAc, PCommon)] in
    sat_hits (map cfg_fdesc cfg) ps PolError rr_docok [Witness.d1; d2'] Witness.q2 = Some [(-3, (0, 1))]%Z /\
    match sc_retrieve (rb_conts (fst (radd_documents (configure_all cfg) [Witness.d1; d2']))) Witness.q2 fresh_scanner with
    | POk s => map rr_pair (sc_res s) = [(-3, 0)]%Z | _ => False end.
  Proof. vm_compute. split; reflexivity. Qed.

  (* ... and the value hypotheses of the theorem hold for that run *)
  Example run_hyps :
    (forall d, In d [Witness.d1; Witness.d2] ->
       doc_good_r (map cfg_fdesc [(1, RDefault, PCommon); (2, RAc, PCommon)]) d) /\
    asg_good_r (map cfg_fdesc [(1, RDefault, PCommon); (2, RAc, PCommon)]) Witness.q1.
  Proof.
    split.
    - intros d [<-|[<-|[]]] cj f es e fd Hcj Hfe He Hfd; cbn in Hcj;
        repeat (destruct Hcj as [<-|Hcj]; [|]); try destruct Hcj;
        cbn in Hfe; repeat (destruct Hfe as [E|Hfe]; [inversion E; subst; clear E|]); try destruct Hfe;
        cbn in He; repeat (destruct He as [<-|He]; [|]); try destruct He;
        vm_compute in Hfd; inversion Hfd; subst; clear Hfd;
        unfold expr_good_fd, nil_no_elems; cbn; try discriminate; repeat split; auto; try discriminate; constructor.
    - intros f v fd Hin Hfd. cbn in Hin. repeat (destruct Hin as [E|Hin]; [inversion E; subst; clear E|]); try destruct Hin;
        vm_compute in Hfd; inversion Hfd; subst; clear Hfd;
        unfold asg_good_fd, nil_no_elems; cbn; repeat split; auto; try discriminate; constructor.
  Qed.
End SpecWitness.

Check sat_conj_conj_sat_r.
Check roaring_index_correct_spec.
Check roaring_index_correct_spec'.
Check roaring_index_hinted_spec.
Check roaring_docs_correct_spec.
Check roaring_docs_hinted_spec.
Check roaring_sat_hits.
Check accepted_denote_r.
Check roaring_configured_correct_spec.
Print Assumptions ac_text_strings.
Print Assumptions ac_keywords_strings.
Print Assumptions sat_conj_conj_sat_r.
Print Assumptions roaring_index_correct_spec.
Print Assumptions roaring_index_correct_spec'.
Print Assumptions roaring_index_correct_spec_min.
Print Assumptions roaring_index_hinted_spec.
Print Assumptions roaring_docs_correct_spec.
Print Assumptions roaring_docs_hinted_spec.
Print Assumptions roaring_sat_hits.
Print Assumptions accepted_denote_r.
Print Assumptions accepted_denote_default.
Print Assumptions roaring_docs_correct_spec_default.
Print Assumptions roaring_configured_correct_spec.
