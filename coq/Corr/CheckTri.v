(* C18: model leg: each of the three indexes against its model. *)
From Coq Require Import List NArith ZArith Bool.
From BE Require Import Model.Spec Corr.Common Corr.CheckE2E Corr.CheckRr.
From BE Require Export Corr.SpecTri.
Import ListNotations.

Definition check_t (t : tcase) : verdict :=
  let '(k, c, r) := t in
  let '(s, d, g) := spec_verdict_t t in
  let '(m1, md1) := CheckE2E.model_verdict k in
  let '(m2, md2) := CheckE2E.model_verdict c in
  let '(m3, md3) := CheckRr.model_verdict r in
  mk_verdict ((m1 || negb md1) && (m2 || negb md2) && (m3 || negb md3)) s (d && md1 && md2 && md3) g.
Definition run (cs : list tcase) := check_all check_t cs.
