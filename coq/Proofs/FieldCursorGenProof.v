(* FieldCursor.SkipTo TRANSLATED from /repo's index_scanner.go on every run (Gen/CursorGen.v: the loop over the member
   cursors -- `for idx := range fc.cursorGroup { cur := &fc.cursorGroup[idx]; if eid := cur.SkipTo(id); eid <= newMin
   { newMin = eid; fc.current = cur } }` -- over an opaque member type: the member's SkipTo is a pair of section
   variables, the element it leaves and the entry it returns; the pointer fc.current is the index of the member it
   points at) computes what the model's field-cursor skip (Model/Cursor.fc_skip_loop / fcursor_skip_to) computes:
   the same members afterwards and the same new minimum, whenever the model's skip finishes. *)
From Coq Require Import List NArith ZArith Bool Lia Arith.
From BE Require Import Model.Scan Model.Cursor Proofs.CursorGenProof Proofs.RetrieveKGenProof.
Import ListNotations.

(* the member's SkipTo, read off the model: the cursor it leaves and the entry it returns *)
Definition mskip (m : member) (id : N) : member :=
  match skip_to (fst m) (snd m) id with Some c' => (fst m, c') | None => m end.
Definition mskip_ret (m : member) (id : N) : N :=
  match skip_to (fst m) (snd m) id with Some c' => c_eid c' | None => 0%N end.

Lemma fskip_loop_lock id : forall rest done nm cur F rest' m,
  (length rest <= F)%nat -> (Z.of_nat (length done + length rest) < 2^60)%Z ->
  fc_skip_loop id rest nm = Some (rest', m) ->
  exists cur', G.FieldCursor_SkipTo_loop1 member mskip mskip_ret F id (cur, done ++ rest, nm, Z.of_nat (length done)) =
               G.Ret (cur', done ++ rest', m, Z.of_nat (length done + length rest)).
Proof.
  assert (P : (2^60 < 2^63)%Z) by (apply Z.pow_lt_mono_r; lia).
  induction rest as [|[l c] r IH]; intros done nm cur F rest' m HF Hlen H.
  - cbn [fc_skip_loop] in H. injection H as <- <-. exists cur. cbn [length]. rewrite Nat.add_0_r, app_nil_r.
    destruct F; cbn [G.FieldCursor_SkipTo_loop1]; rewrite Z.ltb_irrefl; reflexivity.
  - cbn [fc_skip_loop] in H. destruct (skip_to l c id) as [c'|] eqn:Es; [|discriminate].
    set (nm' := if (c_eid c' <=? nm)%N then c_eid c' else nm) in *.
    destruct (fc_skip_loop id r nm') as [[r' m']|] eqn:Er; [|discriminate]. injection H as <- <-.
    destruct F as [|f]; [cbn in HF; lia|]. cbn [length] in *.
    cbn [G.FieldCursor_SkipTo_loop1]. rewrite app_length. cbn [length].
    replace (Z.of_nat (length done) <? Z.of_nat (length done + S (length r)))%Z with true by (symmetry; apply Z.ltb_lt; lia).
    rewrite inbT_mid, keyAt_mid', updWith_mid. cbn [negb].
    assert (E1 : mskip_ret (l, c) id = c_eid c') by (unfold mskip_ret; cbn [fst snd]; rewrite Es; reflexivity).
    assert (E2 : mskip (l, c) id = (l, c')) by (unfold mskip; cbn [fst snd]; rewrite Es; reflexivity).
    rewrite E1, E2.
    replace (Z.of_nat (length done) + 1)%Z with (Z.of_nat (length (done ++ [(l, c')])))
      by (rewrite app_length; cbn [length]; lia).
    rewrite i64s by (rewrite app_length; cbn [length]; lia).
    replace (done ++ (l, c') :: r) with ((done ++ [(l, c')]) ++ r) by (rewrite <- app_assoc; reflexivity).
    destruct (c_eid c' <=? nm)%N eqn:Ele; cbn [G.bind].
    + destruct (IH (done ++ [(l, c')]) nm' (Z.of_nat (length done)) f r' m') as [cur' E];
        [lia|rewrite app_length; cbn [length]; lia|exact Er|].
      unfold nm' in E; try rewrite Ele in E; cbn beta iota in E. exists cur'.
      rewrite <- !app_assoc in E. cbn [app] in E. rewrite E. rewrite app_length. cbn [length].
      replace (length done + 1 + length r)%nat with (length done + S (length r))%nat by lia. reflexivity.
    + destruct (IH (done ++ [(l, c')]) nm' cur f r' m') as [cur' E];
        [lia|rewrite app_length; cbn [length]; lia|exact Er|].
      unfold nm' in E; try rewrite Ele in E; cbn beta iota in E. exists cur'.
      rewrite <- !app_assoc in E. cbn [app] in E. rewrite E. rewrite app_length. cbn [length].
      replace (length done + 1 + length r)%nat with (length done + S (length r))%nat by lia. reflexivity.
Qed.

(* FieldCursor.SkipTo as translated = Model/Cursor.fcursor_skip_to: same members afterwards, same new minimum *)
Theorem FieldCursor_SkipTo_translated_is_model : forall f id f' m cur0,
  (Z.of_nat (length (fc_group f)) < 2^60)%Z ->
  fcursor_skip_to f id = Some (f', m) ->
  exists cur', G.FieldCursor_SkipTo member mskip mskip_ret (length (fc_group f)) cur0 (fc_group f) id =
               G.Ret ((fc_group f', cur'), m) /\ fc_current f' = m.
Proof.
  intros f id f' m cur0 Hlen H. unfold fcursor_skip_to in H.
  destruct (fc_skip_loop id (fc_group f) NULLENTRY) as [[g' m']|] eqn:E; [|discriminate]. injection H as <- <-.
  destruct (fskip_loop_lock id (fc_group f) [] NULLENTRY cur0 (length (fc_group f)) g' m' ltac:(lia) Hlen E) as [cur' E2].
  exists cur'. split; [|reflexivity]. unfold G.FieldCursor_SkipTo. cbn [app length Z.of_nat] in E2.
  change 18446744073709551615%N with NULLENTRY. rewrite E2. reflexivity.
Qed.

(* the member's SkipTo read off the model is what the TRANSLATED EntriesCursor.SkipTo leaves and returns *)
Theorem member_skip_is_translated : forall l c id,
  (Z.of_nat (length l) < 2^60)%Z -> (c_pos c <= length l)%nat -> skip_to l c id <> None ->
  G.EntriesCursor_SkipTo (length l) (Z.of_nat (c_pos c)) l (Z.of_nat (length l)) (c_eid c) id =
  G.Ret ((Z.of_nat (c_pos (snd (mskip (l, c) id))), c_eid (snd (mskip (l, c) id))), mskip_ret (l, c) id).
Proof.
  intros l c id Hlen Hpos Hs. rewrite SkipTo_translated_is_model by assumption.
  unfold mskip, mskip_ret. cbn [fst snd]. destruct (skip_to l c id); [reflexivity|contradiction].
Qed.

Example FieldCursor_SkipTo_translated_runs :
  let g := [([50], new_cursor [50]); ([10; 48], new_cursor [10; 48]); ([30; 44], new_cursor [30; 44])]%N in
  exists g' cur', G.FieldCursor_SkipTo member mskip mskip_ret 3 0 g 40 = G.Ret ((g', cur'), 44%N) /\ cur' = 2%Z.
Proof. do 2 eexists. vm_compute. split; reflexivity. Qed.
