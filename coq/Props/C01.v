(* C01  K-groups index returns exactly the documents whose DNF is satisfied.
   Statements only.  Layers (see DESIGN §6 C01):
     A  stream level: documents -> per-size posting streams -> generic conjunction scan = DNF semantics
        (Model/Build.v, Model/Scan.v; any term matcher `qmatch`)
     B  concrete cursors refine streams (Proofs/Refine.v: R_skip, R_hkey) and the id codec is an
        order isomorphism (Props/C11.v)
   The concrete executable model compared with the code on every run is Model/Index.v. *)
From Coq Require Import List NArith ZArith Bool Permutation.
From BE Require Import Model.Scan Model.Build Model.Cursor Proofs.ScanProof Proofs.BuildProof Proofs.Glue Proofs.CursorProof Proofs.Refine Proofs.ConcreteScan.
From BE Require Model.GoVal Model.Parsers Model.Index Gen.IdsGen Proofs.RoaringProof Proofs.IndexBuildInv Proofs.IndexCorrect Proofs.NonVacuous Model.Spec Proofs.SpecBridge Proofs.HoldersBuildInv Proofs.IndexCorrectHolders Proofs.SpecBridgeHolders Proofs.IndexCorrectPolicy Proofs.SpecBridgeHoldersPolicy Proofs.CursorGenProof Proofs.RetrieveKGenProof.
Import ListNotations.
Local Open Scope N_scope.

(* Layer A, all document sets / assignments / matchers: the k-groups retrieval over the built
   streams terminates (fuel suffices) and returns, each exactly once, precisely the conjunction ids
   of the satisfied conjunctions. *)
Theorem C01_kgroups_streams_exact :
  forall (qval : Type) (qmatch : qval -> term -> bool) (cid_of : Z -> nat -> nat -> N)
         (ds : list doc) (q : assignment qval),
  NoDup (map fst q) ->
  (forall d i c d' i' c', has_conj ds d i c -> has_conj ds d' i' c' ->
     cid_of (d_id d) i (calc_size c) = cid_of (d_id d') i' (calc_size c') -> d = d' /\ i = i') ->
  exists r, retrieve qval qmatch (build cid_of ds) q = Some r /\ NoDup r /\
    forall x, In x r <-> exists d i c, has_conj ds d i c /\ sat_conj qval qmatch q c = true /\ x = the_cid cid_of d i c.
Proof. exact retrieve_correct. Qed.

(* Layer B, the CONCRETE k-groups loop of the executable model (Model/Index.v: retrieve_k = sort, then
   kg_loop over field cursors with galloping SkipTo, entry ids decoded by the functions translated from
   id_types.go): for any cursor set `cs` related to streams `ss` (Rel: each field cursor's remaining
   entries, decoded, are a sorted permutation of its stream; its exposed entry is the group minimum), the
   concrete fuel suffices (termination) and the collector receives, once each, exactly the conjunctions
   that have `need` include entries and no exclude entry among the streams, each with its document id *)
Theorem C01_concrete_kgroups_loop_exact : forall need cs ss,
  (1 <= need)%nat -> Forall2 Rel cs ss -> (forall c, (cnt (c, true) ss <= need)%nat) ->
  exists res, Index.retrieve_k need cs [] = Some res /\
    (forall x, In x (map snd res) <-> sat need ss x) /\ NoDup (map snd res) /\
    (forall h, In h res -> fst h = IdsGen.ConjID_DocID (snd h)).
Proof. exact retrieve_k_correct. Qed.

(* cursors as the model creates them (NewFieldCursor over non-empty sorted posting lists of well-formed
   entries) are in that relation with the merged stream: the premise of the previous theorem is met *)
Theorem C01_new_cursors_related : forall ls, ls <> [] -> Forall sortedN ls ->
  Forall (fun l => forall x, In x l -> wf_entry x) ls ->
  Rel (new_fcursor ls) (sort_stream (map dec (concat ls))).
Proof. exact Rel_new. Qed.

(* END TO END over the executable model (Model/Index.v), fields in the default container, any parser
   configuration: for ANY document set with distinct ids accepted by the k-groups builder (any number of
   documents / conjunctions / expressions per field, any ids in range, any insertion order) and ANY
   assignment whose values parse, the concrete retrieval (per-k cursor construction, galloping SkipTo,
   the scan loop with its fuel, translated id codecs) succeeds and reports, once each, exactly the
   conjunctions satisfied in the sense of the property:
     conj_sat parsers q cj  :=  for every field f of cj, with ids = the parsed values assigned to f
        (none when f is missing or nil):  no exclude expression of cj on f has a parsed value among ids,
        and if cj has include expressions on f one of them has.
   (`pol <> PolSkip \/ all conjunctions parse`: under Skip an unparseable conjunction is accepted but
   not indexed -- that case is C08's.) *)
Theorem C01_kgroups_index_exact : forall pol thr parsers ds st os q,
  Index.add_documents false (Index.new_builder Index.IKGroups pol thr parsers) ds = (st, os) ->
  Forall (eq Index.AddOk) os -> NoDup (map Index.d_id ds) ->
  (forall d cj, In d ds -> In cj (Index.d_conjs d) -> NoDup (map fst cj)) ->
  (pol <> Index.PolSkip \/ forall d cj, In d ds -> In cj (Index.d_conjs d) -> IndexBuildInv.conj_ok parsers cj = true) ->
  NoDup (map fst q) ->
  (forall f v, In (f, v) q -> exists ids, Parsers.parse_assign (parsers f) v = GoVal.POk ids) ->
  exists hits,
    Index.retrieve_kgroups_hits (Index.build_index st) q = Index.ROk hits /\
    NoDup (map snd hits) /\
    (forall d k cj cid, IndexCorrect.has_conj ds d k cj cid ->
       (In cid (map snd hits) <-> IndexCorrect.conj_sat parsers q cj = true)) /\
    (forall h, In h hits -> fst h = IdsGen.ConjID_DocID (snd h) /\
                            exists d k cj, IndexCorrect.has_conj ds d k cj (snd h)).
Proof. exact IndexCorrect.kgroups_index_correct. Qed.

(* ... and on documents: Retrieve returns exactly the ids of the documents having a satisfied conjunction *)
Theorem C01_kgroups_documents_exact : forall pol thr parsers ds st os q,
  Index.add_documents false (Index.new_builder Index.IKGroups pol thr parsers) ds = (st, os) ->
  Forall (eq Index.AddOk) os -> NoDup (map Index.d_id ds) ->
  (forall d cj, In d ds -> In cj (Index.d_conjs d) -> NoDup (map fst cj)) ->
  (pol <> Index.PolSkip \/ forall d cj, In d ds -> In cj (Index.d_conjs d) -> IndexBuildInv.conj_ok parsers cj = true) ->
  NoDup (map fst q) ->
  (forall f v, In (f, v) q -> exists ids, Parsers.parse_assign (parsers f) v = GoVal.POk ids) ->
  exists docs,
    Index.retrieve (Index.build_index st) q = Index.ROk docs /\
    (forall d, In d ds ->
       (In (Index.d_id d) docs <-> exists cj, In cj (Index.d_conjs d) /\ IndexCorrect.conj_sat parsers q cj = true)) /\
    (forall z, In z docs -> exists d, In d ds /\ z = Index.d_id d).
Proof. intros pol thr parsers. exact (IndexCorrect.retrieve_docs_correct Index.IKGroups pol thr parsers). Qed.

(* END TO END AGAINST THE SPECIFICATION (Model/Spec.v: what an expression and an assigned value DENOTE -- canonical
   texts / integers --, `hit`, `sat_conj`, `sat_hits`; no ids, no parsers' output, no posting lists), default-container
   fields under any parser configuration: for any document set accepted by the concrete k-groups builder and any
   assignment whose values are supported (doc_good / asg_good: values are Go values the model represents exactly,
   assigned values denote something), the concrete retrieval succeeds, reports no conjunction twice, every
   indexed conjunction denotes, and a conjunction is reported iff the specification says it is satisfied *)
Theorem C01_index_exact_against_spec : forall pol thr parsers ds st os q,
  Index.add_documents false (Index.new_builder Index.IKGroups pol thr parsers) ds = (st, os) ->
  Forall (eq Index.AddOk) os -> NoDup (map Index.d_id ds) ->
  (forall d cj, In d ds -> In cj (Index.d_conjs d) -> NoDup (map fst cj)) ->
  (forall d, In d ds -> SpecBridge.doc_good parsers d) ->
  (pol <> Index.PolSkip \/ forall d cj, In d ds -> In cj (Index.d_conjs d) -> Spec.conj_sem [] parsers cj <> None) ->
  NoDup (map fst q) -> SpecBridge.asg_good parsers q ->
  exists hits,
    Index.retrieve_hits (Index.build_index st) q = Index.ROk hits /\ NoDup (map snd hits) /\
    (forall d k cj cid, IndexCorrect.has_conj ds d k cj cid ->
       Spec.conj_sem [] parsers cj <> None /\
       forall sc, Spec.conj_sem [] parsers cj = Some sc ->
         (In cid (map snd hits) <-> Spec.sat_conj [] parsers q sc = Some true)) /\
    (forall h, In h hits -> fst h = IdsGen.ConjID_DocID (snd h) /\ exists d k cj, IndexCorrect.has_conj ds d k cj (snd h)).
Proof. intros pol thr parsers. exact (SpecBridge.index_correct_spec Index.IKGroups pol thr parsers). Qed.

(* ... the reported (document, position, size) triples are, as a multiset, exactly the specification's sat_hits *)
Theorem C01_hits_are_the_specifications : forall pol thr parsers ds st os q,
  Index.add_documents false (Index.new_builder Index.IKGroups pol thr parsers) ds = (st, os) ->
  Forall (eq Index.AddOk) os -> NoDup (map Index.d_id ds) ->
  (forall d cj, In d ds -> In cj (Index.d_conjs d) -> NoDup (map fst cj)) ->
  (forall d, In d ds -> SpecBridge.doc_good parsers d) ->
  (pol <> Index.PolSkip \/ forall d cj, In d ds -> In cj (Index.d_conjs d) -> Spec.conj_sem [] parsers cj <> None) ->
  NoDup (map fst q) -> SpecBridge.asg_good parsers q ->
  exists hits spec_hits,
    Index.retrieve_hits (Index.build_index st) q = Index.ROk hits /\
    Spec.sat_hits [] parsers pol Spec.pl_docok ds q = Some spec_hits /\
    Permutation (map (fun h : Index.hitrec => SpecBridge.triple (snd h)) hits) spec_hits.
Proof. intros pol thr parsers. exact (SpecBridge.index_sat_hits Index.IKGroups pol thr parsers). Qed.

(* ... and on documents *)
Theorem C01_documents_exact_against_spec : forall pol thr parsers ds st os q,
  Index.add_documents false (Index.new_builder Index.IKGroups pol thr parsers) ds = (st, os) ->
  Forall (eq Index.AddOk) os -> NoDup (map Index.d_id ds) ->
  (forall d cj, In d ds -> In cj (Index.d_conjs d) -> NoDup (map fst cj)) ->
  (forall d, In d ds -> SpecBridge.doc_good parsers d) ->
  (pol <> Index.PolSkip \/ forall d cj, In d ds -> In cj (Index.d_conjs d) -> Spec.conj_sem [] parsers cj <> None) ->
  NoDup (map fst q) -> SpecBridge.asg_good parsers q ->
  exists docs,
    Index.retrieve (Index.build_index st) q = Index.ROk docs /\
    (forall d, In d ds ->
       (In (Index.d_id d) docs <-> exists cj sc, In cj (Index.d_conjs d) /\ Spec.conj_sem [] parsers cj = Some sc /\
                                                 Spec.sat_conj [] parsers q sc = Some true)) /\
    (forall z, In z docs -> exists d, In d ds /\ z = Index.d_id d).
Proof. intros pol thr parsers. exact (SpecBridge.retrieve_docs_correct_spec Index.IKGroups pol thr parsers). Qed.

(* THE FULL STATEMENT over the executable model (Proofs/SpecBridgeHoldersPolicy.v): ANY builder configuration (every
   field in the default, pattern or range container, any parser), ANY document list with distinct ids -- documents
   may be rejected, conjunctions may fail to parse at any position --, EVERY bad-conjunction policy, ANY supported
   assignment: the concrete retrieval on the index built by the concrete builder succeeds, reports no conjunction
   twice, and reports, as (document, position, size) triples, exactly the specification's sat_hits (Model/Spec.v:
   what expressions and assigned values DENOTE; which conjunctions are indexed under the policy; `hit`; sat_conj).
   Hypotheses = the domain on which specification and model are both defined (each shown necessary by a vm_compute
   witness in the Proofs files): doc_ok -- values are Go values the model represents exactly, and expressions of
   conjunctions that denote lie in the specification's domain (keywords non-empty, range intervals representable:
   every bound of magnitude <= 2^62 is); sizes_ok -- < 256 include fields per conjunction; skip_ok2 -- under Skip
   no operator other than `in` on a default/pattern field (the holders PANIC on those under every policy);
   -2^64 < thr -- any sane expansion threshold; asg_good' / asg_dom_den -- assigned values are supported and no
   assigned integer is MaxInt64 on a field with a `>`; nil_slice_wf -- a nil slice has no elements. *)
Theorem C01_full_statement : forall pol thr parsers cfgl st0 ds st os q,
  HoldersBuildInv.config_fields (Index.new_builder Index.IKGroups pol thr parsers) cfgl = Some st0 ->
  Index.add_documents false st0 ds = (st, os) ->
  NoDup (map Index.d_id ds) ->
  (forall d cj, In d ds -> In cj (Index.d_conjs d) -> NoDup (map fst cj)) ->
  (forall d, In d ds -> SpecBridgeHoldersPolicy.doc_ok parsers cfgl d) ->
  IndexCorrectPolicy.sizes_ok ds ->
  SpecBridgeHoldersPolicy.skip_ok2 pol (SpecBridgeHolders.cfg_fields parsers cfgl) parsers ds ->
  ((- GoVal.two64 < thr)%Z \/
   forall d cj, In d ds -> In cj (Index.d_conjs d) ->
     Spec.conj_sem (SpecBridgeHolders.cfg_fields parsers cfgl) parsers cj <> None ->
     HoldersBuildInv.conj_rwf thr (HoldersBuildInv.cfg_of cfgl) cj) ->
  NoDup (map fst q) ->
  SpecBridgeHolders.asg_good' parsers cfgl q ->
  SpecBridgeHoldersPolicy.asg_dom_den parsers cfgl ds q ->
  (Index.IKGroups = Index.IKGroups -> forall f v, In (f, v) q -> HoldersBuildInv.cfg_of cfgl f = Index.CAc -> IndexCorrectHolders.nil_slice_wf v) ->
  exists hits spec_hits,
    Index.retrieve_hits (Index.build_index st) q = Index.ROk hits /\
    Spec.sat_hits (SpecBridgeHolders.cfg_fields parsers cfgl) parsers pol Spec.pl_docok ds q = Some spec_hits /\
    Permutation (map (fun h : Index.hitrec => SpecBridge.triple (snd h)) hits) spec_hits /\
    NoDup (map snd hits).
Proof. intros pol thr parsers cfgl. exact (SpecBridgeHoldersPolicy.index_sat_hits_holders_policy Index.IKGroups pol thr parsers cfgl). Qed.

Example C01_full_statement_nonvacuous : forall pol st os,
  Index.add_documents false (SpecBridgeHoldersPolicy.HoldersSpecPolicyWitness.st0 Index.IKGroups pol) SpecBridgeHoldersPolicy.HoldersSpecPolicyWitness.docs = (st, os) ->
  exists hits spec_hits,
    Index.retrieve_hits (Index.build_index st) SpecBridgeHoldersPolicy.HoldersSpecPolicyWitness.qq = Index.ROk hits /\
    Spec.sat_hits SpecBridgeHoldersPolicy.HoldersSpecPolicyWitness.fields SpecBridgeHoldersPolicy.HoldersSpecPolicyWitness.ps pol Spec.pl_docok
      SpecBridgeHoldersPolicy.HoldersSpecPolicyWitness.docs SpecBridgeHoldersPolicy.HoldersSpecPolicyWitness.qq = Some spec_hits /\
    Permutation (map (fun h : Index.hitrec => SpecBridge.triple (snd h)) hits) spec_hits /\ NoDup (map snd hits).
Proof. intros pol st os H. exact (proj1 (SpecBridgeHoldersPolicy.HoldersSpecPolicyWitness.applies Index.IKGroups pol st os H)). Qed.

(* the hypotheses of the end-to-end theorems are met by a concrete document set (3 documents, include and
   exclude expressions, a negative id) and assignment, accepted by the builder, for which the concrete
   retrieval returns a non-empty proper subset of the documents *)
Example C01_nonvacuous : NonVacuous.ex_ok Index.IKGroups = true /\ NoDup (map Index.d_id NonVacuous.ex_docs).
Proof. split; [exact NonVacuous.hypotheses_met_kgroups | exact NonVacuous.ex_ids_distinct]. Qed.

Example C01_spec_nonvacuous :
  (forall d, In d NonVacuous.ex_docs -> SpecBridge.doc_good NonVacuous.ex_parsers d) /\
  SpecBridge.asg_good NonVacuous.ex_parsers NonVacuous.ex_q /\
  Spec.sat_hits [] NonVacuous.ex_parsers Index.PolError Spec.pl_docok NonVacuous.ex_docs NonVacuous.ex_q = Some [(1, (0, 1))]%Z.
Proof. split; [exact NonVacuous.ex_docs_good | split; [exact NonVacuous.ex_q_good | exact NonVacuous.ex_spec_says]]. Qed.

(* the tie to the source, as a theorem: KGroupsBEIndex.retrieveK TRANSLATED from be_indexer_kgroups.go on every run
   (Gen/CursorGen.v: the scan loop of one size group over a slice of opaque field cursors -- read through
   GetCurEntryID, advanced through SkipTo -- with the id codecs of IdsGen.v, the collector as the list of its Add
   calls and FieldCursors.Sort as translated; statements that only log are dropped).  Whenever the model's loop
   (Index.retrieve_k, the loop the theorems above are about) finishes with the collector calls `out`, the translated
   function returns exactly those calls on the same cursors: no index out of range, the stated fuel suffices.
   (SkipTo is the total reading of Cursor.fcursor_skip_to, RetrieveKGenProof.skipT.) *)
Theorem C01_translated_retrieveK_is_model : forall need cs res out,
  (1 <= need)%nat -> (Z.of_nat (length cs) < 2^60)%Z ->
  BE.Model.Index.retrieve_k need cs res = Some out ->
  exists cs', BE.Proofs.CursorGenProof.G.KGroupsBEIndex_retrieveK fcursor fc_current BE.Proofs.RetrieveKGenProof.skipT
                (S (BE.Model.Index.fc_total cs) + 2 * length cs) res cs (Z.of_nat need) =
              BE.Proofs.CursorGenProof.G.Ret (cs', out).
Proof. exact BE.Proofs.RetrieveKGenProof.retrieveK_translated_is_model. Qed.

Print Assumptions C01_translated_retrieveK_is_model.
Print Assumptions C01_kgroups_streams_exact.
Print Assumptions C01_kgroups_index_exact.
Print Assumptions C01_kgroups_documents_exact.
Print Assumptions C01_concrete_kgroups_loop_exact.
Print Assumptions C01_new_cursors_related.
Print Assumptions C01_index_exact_against_spec.
Print Assumptions C01_hits_are_the_specifications.
Print Assumptions C01_documents_exact_against_spec.
Print Assumptions C01_full_statement.
