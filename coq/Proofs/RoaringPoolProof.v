(* C10 for the roaring index: retrieval is pure although every retrieval runs through the process-wide
   bitmap pool (Model/RoaringPool.v).

   Part A (pool of contents, Model/Pool.v):  under "every pooled bitmap is empty" every operation of every
   history, for every sequence of Get choices, answers what the pool-free scanner of Model/Roaring.v
   answers on the operations of that scanner alone, and keeps the invariant -- failing retrievals
   included -- provided the error exit drops the scratch (the code as it is) or puts it back cleared.
   Part B (object identities): the same when the pool holds addresses and bitmaps may alias; the
   invariant additionally says that no object is pooled twice and no pooled object is in use.
   Examples: the error exit does leave wildcard postings in the scratch; both seeded mutations
   (scratch put back uncleared; scratch released twice) produce wrong answers in the model. *)
From Coq Require Import List NArith ZArith Bool Lia Sorted Arith.
From BE Require Import Model.GoTypes Model.GoVal Model.Parsers Model.Index Model.Roaring Model.Pool Model.RoaringPool.
From BE Require Import Proofs.RoaringProof Proofs.PoolProof.
From BE Require Gen.IdsGen.
Import ListNotations.
Local Open Scope N_scope.

(* ================================================================== *)
(* Part A: pool of contents                                            *)
(* ================================================================== *)
Lemma bm_or_nil_l b : bm_wf b -> bm_or [] b = b.
Proof.
  intros H. apply bm_ext; [apply bm_or_wf, bm_wf_nil | exact H |].
  intros x. rewrite bm_mem_or, bm_mem_nil. reflexivity.
Qed.

Definition cont_wf (c : rcontainer) : Prop := bm_wf (rc_wc c).
Definition conts_wf (conts : list (fname * rcontainer)) : Prop := Forall (fun fc => cont_wf (snd fc)) conts.

Lemma rc_retrieve_into_nil c v : cont_wf c ->
  rc_retrieve_into c v [] =
  match rc_retrieve c v with POk b => (POk tt, b) | e => (pfail e, rc_wc c) end.
Proof.
  unfold cont_wf. destruct c as [p wc inc exc|wc inc exc]; cbn [rc_wc rc_retrieve_into rc_retrieve]; intros H;
    rewrite (bm_or_nil_l _ H).
  - destruct (nil_interface v) as [[|]| | | |]; cbn [pbind pfail]; try reflexivity.
    destruct (parse_assign p v); cbn [pbind pfail]; reflexivity.
  - destruct (nil_interface v) as [[|]| | | |]; cbn [pbind pfail]; try reflexivity.
    destruct (ac_query_text [32] v); cbn [pbind pfail]; reflexivity.
Qed.

Lemma p_loop_nil q conts : conts_wf conts -> forall s,
  exists tmp, p_loop conts q s [] = (fst (sc_retrieve_st conts q s), snd (sc_retrieve_st conts q s), tmp)
              /\ (fst (sc_retrieve_st conts q s) = POk tt -> tmp = []).
Proof.
  induction 1 as [|[f c] rest Hc Hr IH]; intros s; cbn [p_loop sc_retrieve_st].
  - exists []. split; reflexivity.
  - destruct (sc_ended s); [exists []; split; reflexivity|].
    cbn [snd] in Hc. rewrite (rc_retrieve_into_nil _ _ Hc).
    destruct (rc_retrieve c _) as [b| | | |]; cbn [pfail pbind fst snd];
      try (eexists; split; [reflexivity | discriminate]).
    apply IH.
Qed.

(* sc_retrieve_st is sc_retrieve plus the state of the failing exits *)
Lemma sc_retrieve_st_eq conts q : forall s,
  sc_retrieve conts q s =
  match sc_retrieve_st conts q s with
  | (POk _, s') => POk s' | (PErr, _) => PErr | (PPanic, _) => PPanic
  | (PDiverge, _) => PDiverge | (PUnmodelled, _) => PUnmodelled end.
Proof.
  induction conts as [|[f c] rest IH]; intros s; cbn [sc_retrieve sc_retrieve_st]; [reflexivity|].
  destruct (sc_ended s); [reflexivity|].
  destruct (rc_retrieve c _); cbn [pbind pfail]; try reflexivity. apply IH.
Qed.

Lemma sc_retrieve_st_ok conts q s s' : sc_retrieve conts q s = POk s' <-> sc_retrieve_st conts q s = (POk tt, s').
Proof.
  rewrite sc_retrieve_st_eq. destruct (sc_retrieve_st conts q s) as [[[]| | | |] s1]; split; intros H; inversion H; reflexivity.
Qed.

Definition policy_ok (put_on_error clear_on_error : bool) : Prop := put_on_error = false \/ clear_on_error = true.

Lemma pool_put_inv p : pool_inv p -> pool_inv (pool_put p []).
Proof. intros H. constructor; [reflexivity | exact H]. Qed.

Theorem p_retrieve_pure put clr conts q s p ch :
  policy_ok put clr -> pool_inv p -> conts_wf conts ->
  fst (p_retrieve put clr conts q s p ch) = sc_retrieve_st conts q s /\
  pool_inv (snd (p_retrieve put clr conts q s p ch)).
Proof.
  intros Hpol Hp Hw. unfold p_retrieve.
  destruct (pool_get_inv p ch Hp) as [Hc Hp1]. destruct (pool_get p ch) as [tmp0 p1]. cbn [fst snd] in *. subst tmp0.
  destruct (p_loop_nil q conts Hw s) as [tmp [E Ht]]. rewrite E.
  destruct (sc_retrieve_st conts q s) as [r s']. cbn [fst snd] in *.
  destruct r as [[]| | | |]; cbn [fst snd]; (split; [reflexivity|]);
    try (apply pool_put_inv; exact Hp1);
    (destruct put; [|exact Hp1]); (destruct Hpol as [Hpol|Hpol]; [discriminate|]); subst clr; apply pool_put_inv; exact Hp1.
Qed.

Definition sc_wf (s : option pscanner) : Prop :=
  match s with Some ps => conts_wf (ps_conts ps) | None => True end.
Definition op_wf (op : rpop) : Prop :=
  match op with ONew conts _ => conts_wf conts | _ => True end.

Lemma pick_wf ord conts : conts_wf conts -> conts_wf (pick ord conts).
Proof.
  intros H. unfold pick, conts_wf. apply Forall_forall. intros x Hx.
  apply in_flat_map in Hx. destruct Hx as [i [_ Hi]].
  destruct (nth_error conts i) as [y|] eqn:E; [|destruct Hi].
  destruct Hi as [<-|[]]. unfold conts_wf in H. rewrite Forall_forall in H. apply H. eapply nth_error_In; eauto.
Qed.

Lemma docs_into_nil raw : docs_into raw [] = docs_of_raw raw.
Proof. reflexivity. Qed.

Theorem p_step_pure put clr s op p ch :
  policy_ok put clr -> pool_inv p -> sc_wf s -> op_wf op ->
  fst (fst (p_step put clr s op p ch)) = fst (sc_step s op) /\
  snd (fst (p_step put clr s op p ch)) = snd (sc_step s op) /\
  pool_inv (snd (p_step put clr s op p ch)) /\
  sc_wf (snd (sc_step s op)).
Proof.
  intros Hpol Hp Hs Ho.
  assert (Hget : forall c, fst (pool_get p c) = [] /\ pool_inv (snd (pool_get p c))) by (intros c; apply pool_get_inv, Hp).
  destruct op as [conts mc| |b|hs|ord q ch2|ord q| |]; cbn [p_step sc_step].
  - destruct (Hget ch) as [Hb Hp1]. destruct (pool_get p ch) as [b p1]. cbn [fst snd] in *. subst b.
    repeat split; auto.
  - destruct s as [ps|]; cbn [fst snd]; repeat split; auto.
  - destruct s as [ps|]; cbn [fst snd]; repeat split; auto.
  - destruct s as [ps|]; cbn [fst snd]; [|repeat split; auto].
    destruct (sc_with_hint (ps_maxconj ps) (ps_sc ps) hs); cbn [fst snd]; repeat split; auto.
  - destruct s as [ps|]; cbn [fst snd]; [|repeat split; auto].
    cbn [sc_wf] in Hs.
    destruct (p_retrieve_pure put clr (pick ord (ps_conts ps)) q (ps_sc ps) p ch Hpol Hp (pick_wf ord _ Hs)) as [E Hp1].
    destruct (p_retrieve put clr (pick ord (ps_conts ps)) q (ps_sc ps) p ch) as [[r s'] p1]. cbn [fst snd] in *.
    rewrite <- E.
    destruct r as [[]| | | |]; cbn [fst snd]; try (repeat split; auto; fail).
    destruct (pool_get_inv p1 ch2 Hp1) as [Hb Hp2]. destruct (pool_get p1 ch2) as [db p2]. cbn [fst snd] in *. subst db.
    repeat split; auto. apply pool_put_inv, Hp2.
  - destruct s as [ps|]; cbn [fst snd]; [|repeat split; auto].
    cbn [sc_wf] in Hs.
    destruct (p_retrieve_pure put clr (pick ord (ps_conts ps)) q (ps_sc ps) p ch Hpol Hp (pick_wf ord _ Hs)) as [E Hp1].
    destruct (p_retrieve put clr (pick ord (ps_conts ps)) q (ps_sc ps) p ch) as [[r s'] p1]. cbn [fst snd] in *.
    rewrite <- E.
    destruct r as [[]| | | |]; cbn [fst snd]; repeat split; auto.
  - destruct s as [ps|]; cbn [fst snd]; repeat split; auto.
  - destruct (Hget ch) as [_ Hp1]. repeat split; auto.
Qed.

(* ---------- histories: several scanners, no pool ---------- *)
Definition pure_step (scs : list (nat * pscanner)) (e : nat * rpop * nat) : answer * list (nat * pscanner) :=
  let '(i, op, _) := e in
  let '(a, s') := sc_step (alookup Nat.eqb i scs) op in (a, set_sc i s' scs).

Fixpoint pure_run (h : list (nat * rpop * nat)) (scs : list (nat * pscanner)) : list answer * list (nat * pscanner) :=
  match h with
  | [] => ([], scs)
  | e :: rest => let '(a, scs1) := pure_step scs e in
                 let '(az, scs2) := pure_run rest scs1 in (a :: az, scs2)
  end.

Definition scs_wf (scs : list (nat * pscanner)) : Prop := forall i, sc_wf (alookup Nat.eqb i scs).
Definition hist_wf (h : list (nat * rpop * nat)) : Prop := Forall (fun e => op_wf (snd (fst e))) h.

Lemma alookup_set_sc i s scs j :
  alookup Nat.eqb j (set_sc i s scs) =
  match s with Some x => if Nat.eqb j i then Some x else alookup Nat.eqb j scs | None => alookup Nat.eqb j scs end.
Proof.
  destruct s as [x|]; cbn [set_sc]; [|reflexivity].
  rewrite (alookup_aupdate Nat.eqb Nat.eqb_spec). reflexivity.
Qed.

Lemma set_sc_wf i s scs : scs_wf scs -> sc_wf s -> scs_wf (set_sc i s scs).
Proof.
  intros H Hs j. rewrite alookup_set_sc. destruct s as [x|]; [|apply H].
  destruct (Nat.eqb j i); [exact Hs | apply H].
Qed.

Theorem pool_step_pure put clr st e :
  policy_ok put clr -> pool_inv (st_pool st) -> scs_wf (st_scs st) -> op_wf (snd (fst e)) ->
  fst (pool_step put clr st e) = fst (pure_step (st_scs st) e) /\
  st_scs (snd (pool_step put clr st e)) = snd (pure_step (st_scs st) e) /\
  pool_inv (st_pool (snd (pool_step put clr st e))) /\
  scs_wf (st_scs (snd (pool_step put clr st e))).
Proof.
  intros Hpol Hp Hw Ho. destruct e as [[i op] ch]. cbn [fst snd] in Ho. unfold pool_step, pure_step.
  destruct (p_step_pure put clr (alookup Nat.eqb i (st_scs st)) op (st_pool st) ch Hpol Hp (Hw i) Ho)
    as [Ha [Hs [Hp' Hw']]].
  destruct (p_step put clr (alookup Nat.eqb i (st_scs st)) op (st_pool st) ch) as [[a s'] p'].
  destruct (sc_step (alookup Nat.eqb i (st_scs st)) op) as [a2 s2]. cbn [fst snd st_scs st_pool] in *. subst a2 s2.
  repeat split; auto. apply set_sc_wf; assumption.
Qed.

Theorem pool_run_pure put clr h : forall st,
  policy_ok put clr -> pool_inv (st_pool st) -> scs_wf (st_scs st) -> hist_wf h ->
  fst (pool_run put clr h st) = fst (pure_run h (st_scs st)) /\
  st_scs (snd (pool_run put clr h st)) = snd (pure_run h (st_scs st)) /\
  pool_inv (st_pool (snd (pool_run put clr h st))) /\
  scs_wf (st_scs (snd (pool_run put clr h st))).
Proof.
  induction h as [|e rest IH]; intros st Hpol Hp Hw Hh; cbn [pool_run pure_run].
  - repeat split; auto.
  - inversion Hh as [|? ? He Hrest]; subst.
    destruct (pool_step_pure put clr st e Hpol Hp Hw He) as [Ha [Hs [Hp1 Hw1]]].
    destruct (pool_step put clr st e) as [a st1]. destruct (pure_step (st_scs st) e) as [a' scs1].
    cbn [fst snd] in *. subst a' scs1.
    destruct (IH st1 Hpol Hp1 Hw1 Hrest) as [Haz [Hs2 [Hp2 Hw2]]].
    destruct (pool_run put clr rest st1) as [az st2]. destruct (pure_run rest (st_scs st1)) as [az' scs2].
    cbn [fst snd] in *. subst az' scs2. repeat split; auto.
Qed.

(* ---------- the scanners of the pool-free run do not interact ---------- *)
Lemma sc_step_keeps ps op : exists ps', snd (sc_step (Some ps) op) = Some ps'.
Proof.
  destruct op; cbn [sc_step snd]; try (eexists; reflexivity).
  - destruct (sc_with_hint _ _ _); eexists; reflexivity.
  - destruct (sc_retrieve_st _ _ _) as [[[]| | | |] s']; eexists; reflexivity.
  - destruct (sc_retrieve_st _ _ _) as [[[]| | | |] s']; eexists; reflexivity.
Qed.

Lemma alookup_set_same i scs op :
  alookup Nat.eqb i (set_sc i (snd (sc_step (alookup Nat.eqb i scs) op)) scs) = snd (sc_step (alookup Nat.eqb i scs) op).
Proof.
  rewrite alookup_set_sc. destruct (snd (sc_step (alookup Nat.eqb i scs) op)) as [x|] eqn:E.
  - rewrite Nat.eqb_refl. reflexivity.
  - destruct (alookup Nat.eqb i scs) as [ps|]; [|reflexivity].
    destruct (sc_step_keeps ps op) as [ps' E']. congruence.
Qed.

Lemma alookup_set_other i j s scs : i <> j -> alookup Nat.eqb i (set_sc j s scs) = alookup Nat.eqb i scs.
Proof.
  intros H. rewrite alookup_set_sc. destruct s; [|reflexivity].
  destruct (Nat.eqb_spec i j); [contradiction | reflexivity].
Qed.

Theorem pure_run_proj i h : forall scs,
  answers_of i h (fst (pure_run h scs)) = fst (sc_run (alookup Nat.eqb i scs) (ops_of i h)) /\
  alookup Nat.eqb i (snd (pure_run h scs)) = snd (sc_run (alookup Nat.eqb i scs) (ops_of i h)).
Proof.
  induction h as [|[[j op] ch] rest IH]; intros scs; cbn [pure_run]; [split; reflexivity|].
  unfold pure_step. destruct (sc_step (alookup Nat.eqb j scs) op) as [a s'] eqn:E.
  specialize (IH (set_sc j s' scs)). destruct (pure_run rest (set_sc j s' scs)) as [az scs2].
  unfold answers_of, ops_of in *. cbn [fst snd combine filter map] in *.
  destruct (Nat.eqb_spec j i) as [->|Hne]; cbn [map sc_run fst snd].
  - assert (Hl : alookup Nat.eqb i (set_sc i s' scs) = s').
    { pose proof (alookup_set_same i scs op) as H. rewrite E in H. exact H. }
    rewrite Hl in IH. rewrite E.
    destruct (sc_run s' _) as [bz s2]. cbn [fst snd] in *. destruct IH as [IH1 IH2]. split; [f_equal; exact IH1 | exact IH2].
  - rewrite alookup_set_other in IH by congruence. exact IH.
Qed.

(* ---------- every index the builder produces has well-formed wildcard bitmaps ---------- *)
Lemma rc_add_wildcard_wf c id : cont_wf c -> cont_wf (rc_add_wildcard c id).
Proof. unfold cont_wf. destruct c; cbn [rc_add_wildcard rc_wc]; apply bm_add_wf. Qed.

Lemma rc_encode_wc c id e c' : rc_encode c id e = POk c' -> rc_wc c' = rc_wc c.
Proof.
  destruct c as [p wc inc exc|wc inc exc]; cbn [rc_encode rc_wc].
  - destruct (e_op e); try discriminate.
    destruct (parse_value p (e_val e)); cbn [pbind]; try discriminate.
    destruct (e_incl e); intros H; inversion H; reflexivity.
  - destruct (nil_interface (e_val e)) as [[|]| | | |]; cbn [pbind]; try discriminate.
    + intros H; inversion H; reflexivity.
    + destruct (e_op e); try discriminate.
      destruct (ac_parse_dict (e_val e)); cbn [pbind]; try discriminate.
      destruct (e_incl e); intros H; inversion H; reflexivity.
Qed.

Lemma encode_exprs_wc es : forall c id w c' w', encode_exprs c id es w = POk (c', w') -> rc_wc c' = rc_wc c.
Proof.
  induction es as [|e es IH]; intros c id w c' w'; cbn [encode_exprs].
  - intros H; inversion H; reflexivity.
  - destruct (rc_encode c id e) as [c1| | | |] eqn:E; cbn [pbind]; try discriminate.
    intros H. apply IH in H. rewrite H. eapply rc_encode_wc; eauto.
Qed.

Lemma encode_fields_wf conts : forall id cj, conts_wf conts -> conts_wf (fst (encode_fields conts id cj)).
Proof.
  induction conts as [|[f c] rest IH]; intros id cj H; cbn [encode_fields]; [constructor|].
  inversion H as [|? ? Hc Hr]; subst. cbn [snd] in Hc. specialize (IH id cj Hr).
  destruct (alookup N.eqb f cj) as [[|e es]|].
  - destruct (encode_fields rest id cj) as [rest' r]. cbn [fst] in *. constructor; [apply rc_add_wildcard_wf, Hc | exact IH].
  - destruct (encode_exprs c id (e :: es) true) as [[c' wc]| | | |] eqn:E; cbn [fst]; try exact H.
    destruct (encode_fields rest id cj) as [rest' r]. cbn [fst] in *. constructor; [|exact IH]. cbn [snd].
    assert (Hc' : cont_wf c') by (unfold cont_wf; rewrite (encode_exprs_wc _ _ _ _ _ _ E); exact Hc).
    destruct wc; [apply rc_add_wildcard_wf|]; exact Hc'.
  - destruct (encode_fields rest id cj) as [rest' r]. cbn [fst] in *. constructor; [apply rc_add_wildcard_wf, Hc | exact IH].
Qed.

Lemma radd_conjs_wf ics : forall b d, conts_wf (rb_conts b) -> conts_wf (rb_conts (fst (radd_conjs b d ics))).
Proof.
  induction ics as [|[i cj] rest IH]; intros b d H; cbn [radd_conjs]; [exact H|].
  destruct (IdsGen.NewConjunctionID i d) as [id|]; [|exact H].
  destruct (negb _); [exact H|].
  pose proof (encode_fields_wf (rb_conts b) id cj H) as H1.
  destruct (encode_fields (rb_conts b) id cj) as [conts' r]. cbn [fst] in H1.
  destruct r; cbn [fst rb_conts]; try exact H1. apply IH. exact H1.
Qed.

Lemma radd_document_wf b d : conts_wf (rb_conts b) -> conts_wf (rb_conts (fst (radd_document b d))).
Proof.
  intros H. unfold radd_document. destruct (d_conjs d) as [|cj cjs] eqn:Ed; [exact H|]. rewrite <- Ed.
  pose proof (radd_conjs_wf (indexed_from 0%Z (d_conjs d)) b (d_id d) H) as H1.
  destruct (radd_conjs b (d_id d) (indexed_from 0%Z (d_conjs d))) as [b' o]. cbn [fst] in H1.
  destruct o; exact H1.
Qed.

Theorem radd_documents_wf ds : forall b, conts_wf (rb_conts b) -> conts_wf (rb_conts (fst (radd_documents b ds))).
Proof.
  induction ds as [|d ds IH]; intros b H; cbn [radd_documents]; [exact H|].
  pose proof (radd_document_wf b d H) as H1. destruct (radd_document b d) as [b1 o]. cbn [fst] in H1.
  specialize (IH b1 H1). destruct (radd_documents b1 ds) as [b2 os]. exact IH.
Qed.

Lemma rb_configure_wf b f k p : conts_wf (rb_conts b) -> conts_wf (rb_conts (rb_configure b f k p)).
Proof.
  unfold rb_configure. cbn [rb_conts]. generalize (rb_conts b). intros l H.
  induction H as [|[g c] l Hc Hl IH]; cbn [aupdate].
  - constructor; [|constructor]. destruct k; exact bm_wf_nil.
  - destruct (N.eqb f g); constructor; auto. destruct k; exact bm_wf_nil.
Qed.

Lemma new_rbuilder_wf : conts_wf (rb_conts new_rbuilder).
Proof. constructor. Qed.

(* ================================================================== *)
(* main theorem                                                        *)
(* ================================================================== *)
Theorem roaring_pool_pure put clr h st i :
  policy_ok put clr -> pool_inv (st_pool st) -> scs_wf (st_scs st) -> hist_wf h ->
  answers_of i h (fst (pool_run put clr h st)) = fst (sc_run (alookup Nat.eqb i (st_scs st)) (ops_of i h)) /\
  alookup Nat.eqb i (st_scs (snd (pool_run put clr h st))) = snd (sc_run (alookup Nat.eqb i (st_scs st)) (ops_of i h)) /\
  pool_inv (st_pool (snd (pool_run put clr h st))) /\
  scs_wf (st_scs (snd (pool_run put clr h st))).
Proof.
  intros Hpol Hp Hw Hh. destruct (pool_run_pure put clr h st Hpol Hp Hw Hh) as [Ha [Hs [Hp' Hw']]].
  destruct (pure_run_proj i h (st_scs st)) as [P1 P2].
  split; [rewrite Ha; exact P1|]. split; [rewrite Hs; exact P2|]. split; assumption.
Qed.

Lemma st_init_ok : pool_inv (st_pool st_init) /\ scs_wf (st_scs st_init).
Proof. split; [constructor | intros i; exact I]. Qed.

Corollary roaring_pool_pure_init put clr h i :
  policy_ok put clr -> hist_wf h ->
  answers_of i h (fst (pool_run put clr h st_init)) = fst (sc_run None (ops_of i h)) /\
  pool_inv (st_pool (snd (pool_run put clr h st_init))).
Proof.
  intros Hpol Hh. destruct st_init_ok as [A B].
  destruct (roaring_pool_pure put clr h st_init i Hpol A B Hh) as [H1 [_ [H3 _]]]. split; assumption.
Qed.

(* the Get choices are irrelevant: two histories with the same operations give the same answers *)
Definition strip_op (op : rpop) : rpop :=
  match op with ORetrieve ord q _ => ORetrieve ord q 0%nat | o => o end.
Definition strip (e : nat * rpop * nat) : nat * rpop := (fst (fst e), strip_op (snd (fst e))).

Lemma sc_step_strip s op : sc_step s (strip_op op) = sc_step s op.
Proof. destruct op; reflexivity. Qed.

Lemma pure_run_strip h1 : forall h2 scs, map strip h1 = map strip h2 -> pure_run h1 scs = pure_run h2 scs.
Proof.
  induction h1 as [|[[i op] c] r1 IH]; intros [|[[j op'] c'] r2] scs H; try discriminate; [reflexivity|].
  cbn [map] in H. injection H as Hi Ho Hr. unfold strip in Hi, Ho. cbn [fst snd] in Hi, Ho. subst j.
  cbn [pure_run]. unfold pure_step.
  rewrite <- (sc_step_strip _ op), Ho, sc_step_strip.
  destruct (sc_step (alookup Nat.eqb i scs) op') as [a s']. rewrite (IH r2 _ Hr). reflexivity.
Qed.

Lemma hist_wf_strip h1 : forall h2, map strip h1 = map strip h2 -> hist_wf h1 -> hist_wf h2.
Proof.
  induction h1 as [|[[i op] c] r1 IH]; intros [|[[j op'] c'] r2] H Hw; try discriminate; [constructor|].
  cbn [map] in H. injection H as Hi Ho Hr. unfold strip in Ho. cbn [fst snd] in Ho.
  inversion Hw as [|? ? H1 H2]; subst. constructor; [|apply IH; assumption].
  cbn [fst snd] in *. destruct op, op'; try discriminate; cbn [strip_op] in Ho; try exact I.
  inversion Ho; subst. exact H1.
Qed.

Theorem choice_independent put clr h1 h2 st :
  policy_ok put clr -> pool_inv (st_pool st) -> scs_wf (st_scs st) -> hist_wf h1 ->
  map strip h1 = map strip h2 ->
  fst (pool_run put clr h1 st) = fst (pool_run put clr h2 st).
Proof.
  intros Hpol Hp Hw Hh E.
  destruct (pool_run_pure put clr h1 st Hpol Hp Hw Hh) as [A1 _].
  destruct (pool_run_pure put clr h2 st Hpol Hp Hw (hist_wf_strip _ _ E Hh)) as [A2 _].
  rewrite A1, A2, (pure_run_strip h1 h2 _ E). reflexivity.
Qed.

(* ================================================================== *)
(* a Reset (or new) scanner answers like fresh_scanner                 *)
(* ================================================================== *)
Definition retrieve_answer (r : pres scanner) : answer :=
  match r with POk s' => ADocs (docs_of_raw (sc_res s')) | e => AFail (pfail e) end.
Definition retrieve_docs_answer (r : pres scanner) : answer :=
  match r with POk s' => ADocSet (docset_of (sc_res s')) | e => AFail (pfail e) end.

Lemma retrieve_answer_st conts q s :
  retrieve_answer (sc_retrieve conts q s) =
  match sc_retrieve_st conts q s with (POk _, s') => ADocs (docs_of_raw (sc_res s')) | (e, _) => AFail e end.
Proof. rewrite sc_retrieve_st_eq. destruct (sc_retrieve_st conts q s) as [[[]| | | |] s']; reflexivity. Qed.

Lemma retrieve_docs_answer_st conts q s :
  retrieve_docs_answer (sc_retrieve conts q s) =
  match sc_retrieve_st conts q s with (POk _, s') => ADocSet (docset_of (sc_res s')) | (e, _) => AFail e end.
Proof. rewrite sc_retrieve_st_eq. destruct (sc_retrieve_st conts q s) as [[[]| | | |] s']; reflexivity. Qed.

(* every state a history reaches from the initial one satisfies the invariants *)
Lemma reachable_ok put clr h0 :
  policy_ok put clr -> hist_wf h0 ->
  pool_inv (st_pool (snd (pool_run put clr h0 st_init))) /\ scs_wf (st_scs (snd (pool_run put clr h0 st_init))).
Proof.
  intros Hpol Hh. destruct st_init_ok as [A B].
  destruct (pool_run_pure put clr h0 st_init Hpol A B Hh) as [_ [_ [H1 H2]]]. split; assumption.
Qed.

Lemma pool_run_app put clr h1 : forall h2 st,
  pool_run put clr (h1 ++ h2) st =
  (fst (pool_run put clr h1 st) ++ fst (pool_run put clr h2 (snd (pool_run put clr h1 st))),
   snd (pool_run put clr h2 (snd (pool_run put clr h1 st)))).
Proof.
  induction h1 as [|e r IH]; intros h2 st; cbn [app pool_run fst snd].
  - destruct (pool_run put clr h2 st); reflexivity.
  - destruct (pool_step put clr st e) as [a st1]. rewrite IH.
    destruct (pool_run put clr r st1) as [az st2]. reflexivity.
Qed.

(* whatever happened before (h0: any operations on any scanners, failing retrievals included, any Get
   choices), a scanner that is Reset answers the next retrieval like the fresh scanner of the pure model *)
Theorem reset_retrieve_pure put clr h0 i ps c1 c2 ch2 ord q :
  policy_ok put clr -> hist_wf h0 ->
  alookup Nat.eqb i (st_scs (snd (pool_run put clr h0 st_init))) = Some ps ->
  fst (pool_run put clr [(i, OReset, c1); (i, ORetrieve ord q ch2, c2)] (snd (pool_run put clr h0 st_init))) =
  [AUnit; retrieve_answer (sc_retrieve (pick ord (ps_conts ps)) q fresh_scanner)].
Proof.
  intros Hpol Hh Hl. destruct (reachable_ok put clr h0 Hpol Hh) as [Hp Hw].
  set (st := snd (pool_run put clr h0 st_init)) in *.
  assert (Hh2 : hist_wf [(i, OReset, c1); (i, ORetrieve ord q ch2, c2)]) by (repeat constructor).
  destruct (pool_run_pure put clr _ st Hpol Hp Hw Hh2) as [A _]. rewrite A.
  cbn [pure_run pure_step]. rewrite Hl. cbn [sc_step set_sc].
  rewrite (alookup_aupdate Nat.eqb Nat.eqb_spec), Nat.eqb_refl. cbn [sc_step ps_set ps_conts ps_sc ps_debug].
  rewrite retrieve_answer_st.
  destruct (sc_retrieve_st (pick ord (ps_conts ps)) q fresh_scanner) as [[[]| | | |] s']; reflexivity.
Qed.

Theorem reset_retrieve_docs_pure put clr h0 i ps c1 c2 ord q :
  policy_ok put clr -> hist_wf h0 ->
  alookup Nat.eqb i (st_scs (snd (pool_run put clr h0 st_init))) = Some ps ->
  fst (pool_run put clr [(i, OReset, c1); (i, ORetrieveDocs ord q, c2)] (snd (pool_run put clr h0 st_init))) =
  [AUnit; retrieve_docs_answer (sc_retrieve (pick ord (ps_conts ps)) q fresh_scanner)].
Proof.
  intros Hpol Hh Hl. destruct (reachable_ok put clr h0 Hpol Hh) as [Hp Hw].
  set (st := snd (pool_run put clr h0 st_init)) in *.
  assert (Hh2 : hist_wf [(i, OReset, c1); (i, ORetrieveDocs ord q, c2)]) by (repeat constructor).
  destruct (pool_run_pure put clr _ st Hpol Hp Hw Hh2) as [A _]. rewrite A.
  cbn [pure_run pure_step]. rewrite Hl. cbn [sc_step set_sc].
  rewrite (alookup_aupdate Nat.eqb Nat.eqb_spec), Nat.eqb_refl. cbn [sc_step ps_set ps_conts ps_sc ps_debug].
  rewrite retrieve_docs_answer_st.
  destruct (sc_retrieve_st (pick ord (ps_conts ps)) q fresh_scanner) as [[[]| | | |] s']; reflexivity.
Qed.

(* the same for a scanner created now: NewScanner takes its result bitmap from the pool *)
Theorem new_retrieve_pure put clr h0 i conts mc c1 c2 ch2 ord q :
  policy_ok put clr -> hist_wf h0 -> conts_wf conts ->
  fst (pool_run put clr [(i, ONew conts mc, c1); (i, ORetrieve ord q ch2, c2); (i, ORaw, 0%nat)]
                (snd (pool_run put clr h0 st_init))) =
  [AUnit; retrieve_answer (sc_retrieve (pick ord conts) q fresh_scanner);
   match sc_retrieve_st (pick ord conts) q fresh_scanner with (_, s') => ARaw (sc_res s') end].
Proof.
  intros Hpol Hh Hc. destruct (reachable_ok put clr h0 Hpol Hh) as [Hp Hw].
  set (st := snd (pool_run put clr h0 st_init)) in *.
  assert (Hh2 : hist_wf [(i, ONew conts mc, c1); (i, ORetrieve ord q ch2, c2); (i, ORaw, 0%nat)]).
  { constructor; [exact Hc|]. repeat constructor. }
  destruct (pool_run_pure put clr _ st Hpol Hp Hw Hh2) as [A _]. rewrite A.
  cbn [pure_run pure_step]. cbn [sc_step set_sc].
  rewrite (alookup_aupdate Nat.eqb Nat.eqb_spec), Nat.eqb_refl. cbn [sc_step ps_set ps_conts ps_sc ps_debug].
  rewrite retrieve_answer_st.
  destruct (sc_retrieve_st (pick ord conts) q fresh_scanner) as [[[]| | | |] s']; cbn [set_sc];
    rewrite (alookup_aupdate Nat.eqb Nat.eqb_spec), Nat.eqb_refl; reflexivity.
Qed.

(* hinted: Reset, WithHint, Retrieve *)
Theorem reset_hint_retrieve_pure put clr h0 i ps c1 c2 c3 ch2 hs ord q :
  policy_ok put clr -> hist_wf h0 ->
  alookup Nat.eqb i (st_scs (snd (pool_run put clr h0 st_init))) = Some ps ->
  exists s0, sc_with_hint (ps_maxconj ps) fresh_scanner hs = Some s0 /\
  fst (pool_run put clr [(i, OReset, c1); (i, OHint hs, c2); (i, ORetrieve ord q ch2, c3)]
                (snd (pool_run put clr h0 st_init))) =
  [AUnit; AUnit; retrieve_answer (sc_retrieve (pick ord (ps_conts ps)) q s0)].
Proof.
  intros Hpol Hh Hl. destruct (reachable_ok put clr h0 Hpol Hh) as [Hp Hw].
  set (st := snd (pool_run put clr h0 st_init)) in *.
  eexists. split; [reflexivity|].
  assert (Hh2 : hist_wf [(i, OReset, c1); (i, OHint hs, c2); (i, ORetrieve ord q ch2, c3)]) by (repeat constructor).
  destruct (pool_run_pure put clr _ st Hpol Hp Hw Hh2) as [A _]. rewrite A.
  cbn [pure_run pure_step]. rewrite Hl. cbn [sc_step set_sc].
  rewrite (alookup_aupdate Nat.eqb Nat.eqb_spec), Nat.eqb_refl.
  cbn [sc_step ps_set ps_conts ps_sc ps_debug ps_maxconj sc_with_hint fresh_scanner sc_inited sc_ended sc_res].
  cbn [set_sc]. rewrite (alookup_aupdate Nat.eqb Nat.eqb_spec), Nat.eqb_refl.
  cbn [sc_step ps_set ps_conts ps_sc ps_debug ps_maxconj].
  rewrite retrieve_answer_st.
  match goal with |- context [sc_retrieve_st ?a ?b ?c] => destruct (sc_retrieve_st a b c) as [[[]| | | |] s'] end; reflexivity.
Qed.

(* ================================================================== *)
(* Part B: object identities (aliasing, double release)                *)
(* ================================================================== *)
Local Open Scope nat_scope.

(* ---------- store ---------- *)
Lemma m_set_same m a v : m_set m a v a = v.
Proof. unfold m_set. rewrite Nat.eqb_refl. reflexivity. Qed.
Lemma m_set_other m a v x : x <> a -> m_set m a v x = m x.
Proof. unfold m_set. intros H. destruct (Nat.eqb_spec x a); [contradiction | reflexivity]. Qed.

(* ---------- invariant ---------- *)
Record hinv (m : mem) (next : nat) (p : list nat) (scs : list (nat * hscanner)) : Prop := {
  hi_nodup : NoDup p;                                               (* no object is pooled twice *)
  hi_pool : forall a, In a p -> a < next /\ m a = [];               (* pooled bitmaps are empty *)
  hi_unused : forall a, next <= a -> m a = [];
  hi_res : forall i x, alookup Nat.eqb i scs = Some x -> hs_res x < next /\ ~ In (hs_res x) p;
                                                                    (* a result bitmap in use is not pooled *)
  hi_inj : forall i j x y, alookup Nat.eqb i scs = Some x -> alookup Nat.eqb j scs = Some y ->
                           hs_res x = hs_res y -> i = j;            (* scanners do not share their result bitmap *)
  hi_wf : forall i x, alookup Nat.eqb i scs = Some x -> conts_wf (hs_conts x)
}.

(* an address in use by the running operation: allocated, not pooled, no scanner's result *)
Definition held (next : nat) (p : list nat) (scs : list (nat * hscanner)) (a : nat) : Prop :=
  a < next /\ ~ In a p /\ forall i x, alookup Nat.eqb i scs = Some x -> hs_res x <> a.

Lemma remove_nth_In {A} (l : list A) : forall n x, In x (remove_nth n l) -> In x l.
Proof.
  induction l as [|y l IH]; intros [|n] x H; cbn in *; auto. destruct H as [H|H]; [left; exact H | right; eapply IH; eauto].
Qed.

Lemma remove_nth_NoDup {A} (l : list A) : forall n, NoDup l -> NoDup (remove_nth n l).
Proof.
  induction l as [|y l IH]; intros [|n] H; cbn; auto; inversion H; subst; auto.
  constructor; [|apply IH; assumption]. intros Hin. apply remove_nth_In in Hin. contradiction.
Qed.

Lemma remove_nth_notin {A} (l : list A) : forall n a, NoDup l -> nth_error l n = Some a -> ~ In a (remove_nth n l).
Proof.
  induction l as [|y l IH]; intros [|n] a H E; cbn in *; try discriminate; inversion H; subst.
  - inversion E; subst. assumption.
  - intros [Hy|Hin]; [subst; apply H2; eapply nth_error_In; eauto | eapply IH; eauto].
Qed.

(* Get: the object handed out is empty and in nobody's hands *)
Lemma apool_get_ok m next p scs ch a next' p' :
  hinv m next p scs -> apool_get next p ch = (a, next', p') ->
  hinv m next' p' scs /\ held next' p' scs a /\ m a = [].
Proof.
  intros [I1 I2 I3 I4 I5 I6]. unfold apool_get. destruct (nth_error p ch) as [b|] eqn:E; intros H; inversion H; subst.
  - assert (Hb : In a p) by (eapply nth_error_In; eauto).
    split; [|split].
    + constructor; auto.
      * apply remove_nth_NoDup, I1.
      * intros x Hx. apply I2. eapply remove_nth_In; eauto.
      * intros i x Hx. destruct (I4 i x Hx) as [H1 H2]. split; [exact H1|]. intros Hin. apply H2. eapply remove_nth_In; eauto.
    + split; [apply I2, Hb|]. split; [apply remove_nth_notin; assumption|].
      intros i x Hx Heq. destruct (I4 i x Hx) as [_ H2]. apply H2. rewrite Heq. exact Hb.
    + apply I2, Hb.
  - split; [|split].
    + constructor; auto.
      * intros x Hx. destruct (I2 x Hx). split; [lia | assumption].
      * intros x Hx. apply I3. lia.
      * intros i x Hx. destruct (I4 i x Hx). split; [lia | assumption].
    + split; [lia|]. split.
      * intros Hin. destruct (I2 _ Hin). lia.
      * intros i x Hx Heq. destruct (I4 i x Hx). lia.
    + apply I3. lia.
Qed.

(* writes to addresses that are allocated and not pooled keep the invariant *)
Lemma hinv_frame m m' next p scs (W : nat -> Prop) :
  hinv m next p scs -> (forall a, ~ W a -> m' a = m a) -> (forall a, W a -> a < next /\ ~ In a p) ->
  hinv m' next p scs.
Proof.
  intros [I1 I2 I3 I4 I5 I6] Hf Hw. constructor; auto.
  - intros a Ha. destruct (I2 a Ha) as [H1 H2]. split; [exact H1|]. rewrite Hf; [exact H2|].
    intros HW. apply Hw in HW. tauto.
  - intros a Ha. rewrite Hf; [apply I3, Ha|]. intros HW. apply Hw in HW. lia.
Qed.

Lemma hinv_release m next p scs a :
  hinv m next p scs -> held next p scs a -> hinv (m_set m a []) next (a :: p) scs.
Proof.
  intros [I1 I2 I3 I4 I5 I6] [H1 [H2 H3]]. constructor; auto.
  - constructor; assumption.
  - intros x [<-|Hx].
    + split; [exact H1 | apply m_set_same].
    + destruct (I2 x Hx). split; [assumption|]. rewrite m_set_other; [assumption|]. intros ->. contradiction.
  - intros x Hx. rewrite m_set_other; [apply I3, Hx | lia].
  - intros i x Hx. destruct (I4 i x Hx) as [G1 G2]. split; [exact G1|]. intros [Heq|Hin]; [|contradiction].
    apply (H3 i x Hx). symmetry. exact Heq.
Qed.

Lemma alookup_set_hsc i s scs j :
  alookup Nat.eqb j (set_hsc i s scs) =
  match s with Some x => if Nat.eqb j i then Some x else alookup Nat.eqb j scs | None => alookup Nat.eqb j scs end.
Proof.
  destruct s as [x|]; cbn [set_hsc]; [|reflexivity].
  rewrite (alookup_aupdate Nat.eqb Nat.eqb_spec). reflexivity.
Qed.

(* scanner i changes flags only *)
Lemma hinv_set_same_res m next p scs i x x' :
  hinv m next p scs -> alookup Nat.eqb i scs = Some x ->
  hs_res x' = hs_res x -> hs_conts x' = hs_conts x ->
  hinv m next p (set_hsc i (Some x') scs).
Proof.
  intros [I1 I2 I3 I4 I5 I6] Hx Hr Hc. constructor; auto.
  - intros j y. rewrite alookup_set_hsc. destruct (Nat.eqb_spec j i) as [->|]; [|apply I4].
    intros E; inversion E; subst. rewrite Hr. apply (I4 i x Hx).
  - intros j k y z. rewrite !alookup_set_hsc.
    destruct (Nat.eqb_spec j i) as [->|Hj]; destruct (Nat.eqb_spec k i) as [->|Hk]; intros E1 E2; auto.
    + inversion E1; subst. rewrite Hr. intros Heq. apply (I5 i k x z Hx E2 Heq).
    + inversion E2; subst. rewrite Hr. intros Heq. apply (I5 j i y x E1 Hx Heq).
    + apply (I5 j k y z E1 E2).
  - intros j y. rewrite alookup_set_hsc. destruct (Nat.eqb_spec j i) as [->|]; [|apply I6].
    intros E; inversion E; subst. rewrite Hc. apply (I6 i x Hx).
Qed.

(* scanner i is (re)created on a held address *)
Lemma hinv_set_new m next p scs i x' :
  hinv m next p scs -> held next p scs (hs_res x') -> conts_wf (hs_conts x') ->
  hinv m next p (set_hsc i (Some x') scs).
Proof.
  intros [I1 I2 I3 I4 I5 I6] [H1 [H2 H3]] Hc. constructor; auto.
  - intros j y. rewrite alookup_set_hsc. destruct (Nat.eqb_spec j i) as [->|]; [|apply I4].
    intros E; inversion E; subst. split; assumption.
  - intros j k y z. rewrite !alookup_set_hsc.
    destruct (Nat.eqb_spec j i) as [->|Hj]; destruct (Nat.eqb_spec k i) as [->|Hk]; intros E1 E2; auto.
    + inversion E1; subst. intros Heq. exfalso. apply (H3 k z E2). symmetry; exact Heq.
    + inversion E2; subst. intros Heq. exfalso. apply (H3 j y E1). exact Heq.
    + apply (I5 j k y z E1 E2).
  - intros j y. rewrite alookup_set_hsc. destruct (Nat.eqb_spec j i) as [->|]; [|apply I6].
    intros E; inversion E; subst. exact Hc.
Qed.

Lemma scanner_eta s : {| sc_inited := sc_inited s; sc_ended := sc_ended s; sc_res := sc_res s |} = s.
Proof. destruct s; reflexivity. Qed.

(* without aliasing and with an empty scratch the loop on the store is the pure loop *)
Lemma h_loop_spec q conts : conts_wf conts -> forall fl res tmp m,
  tmp <> res -> m tmp = [] ->
  let r := sc_retrieve_st conts q {| sc_inited := fst fl; sc_ended := snd fl; sc_res := m res |} in
  exists m', h_loop conts q fl res tmp m = (fst r, (sc_inited (snd r), sc_ended (snd r)), m') /\
             m' res = sc_res (snd r) /\
             (forall a, a <> res -> a <> tmp -> m' a = m a) /\
             (fst r = POk tt -> m' tmp = []).
Proof.
  induction 1 as [|[f c] rest Hc Hr IH]; intros [ini en] res tmp m Hne Ht; cbn [fst snd h_loop sc_retrieve_st sc_ended].
  - exists m. repeat split; auto.
  - destruct en; [exists m; repeat split; auto|].
    cbn [snd] in Hc. rewrite Ht, (rc_retrieve_into_nil _ _ Hc).
    destruct (rc_retrieve c _) as [b| | | |]; cbn [pfail pbind fst snd];
      try (eexists; split; [reflexivity|]; split; [apply m_set_other; auto|]; split;
           [intros a H1 H2; apply m_set_other; exact H2 | discriminate]).
    rewrite m_set_same, (m_set_other m tmp b res) by auto.
    set (s' := sc_merge {| sc_inited := ini; sc_ended := false; sc_res := m res |} b).
    set (m3 := m_set (m_set (m_set m tmp b) res (sc_res s')) tmp []).
    assert (H3t : m3 tmp = []) by apply m_set_same.
    assert (H3r : m3 res = sc_res s').
    { unfold m3. rewrite m_set_other by auto. apply m_set_same. }
    destruct (IH (sc_inited s', sc_ended s') res tmp m3 Hne H3t) as [m' [E [R [F T]]]].
    cbn [fst snd] in E, R, F, T. rewrite H3r, scanner_eta in E, R, T.
    exists m'. split; [exact E|]. split; [exact R|]. split; [|exact T].
    intros a H1 H2. rewrite F by assumption. unfold m3. rewrite !m_set_other by assumption. reflexivity.
Qed.

Definition herr_ok (err_path : list bool) : Prop := err_path = [] \/ err_path = [true].

Lemma h_retrieve_spec ep conts q fl m next p scs i x ch :
  herr_ok ep -> hinv m next p scs -> alookup Nat.eqb i scs = Some x -> conts_wf conts ->
  let r := sc_retrieve_st conts q {| sc_inited := fst fl; sc_ended := snd fl; sc_res := m (hs_res x) |} in
  exists m' next' p',
    h_retrieve ep conts q fl (hs_res x) m next p ch = (fst r, (sc_inited (snd r), sc_ended (snd r)), m', next', p') /\
    m' (hs_res x) = sc_res (snd r) /\
    hinv m' next' p' scs /\
    (forall j y, alookup Nat.eqb j scs = Some y -> j <> i -> m' (hs_res y) = m (hs_res y)).
Proof.
  intros Hep Hinv Hx Hw r. unfold h_retrieve.
  destruct (apool_get next p ch) as [[tmp next1] p1] eqn:G.
  destruct (apool_get_ok _ _ _ _ _ _ _ _ Hinv G) as [Hinv1 [Hheld Ht]].
  assert (Hne : tmp <> hs_res x).
  { destruct Hheld as [_ [_ H3]]. intros E. apply (H3 i x Hx). symmetry; exact E. }
  destruct (h_loop_spec q conts Hw fl (hs_res x) tmp m Hne Ht) as [m1 [E [R [F T]]]].
  fold r in E, R, T. rewrite E.
  assert (Hinv2 : hinv m1 next1 p1 scs).
  { apply (hinv_frame m m1 next1 p1 scs (fun a => a = hs_res x \/ a = tmp) Hinv1).
    - intros a Ha. apply F; intros ->; apply Ha; auto.
    - intros a [->| ->]; [apply (hi_res _ _ _ _ Hinv1 i x Hx) | destruct Hheld as [H1 [H2 _]]; split; assumption]. }
  assert (Hoth : forall j y, alookup Nat.eqb j scs = Some y -> j <> i -> m1 (hs_res y) = m (hs_res y) /\ hs_res y <> tmp).
  { intros j y Hy Hji. assert (hs_res y <> tmp) by (destruct Hheld as [_ [_ H3]]; apply (H3 j y Hy)).
    split; [|assumption]. apply F; [|assumption]. intros Heq. apply Hji. apply (hi_inj _ _ _ _ Hinv j i y x Hy Hx Heq). }
  assert (Hrel : exists m' p', release m1 p1 tmp = (m', p') /\ m' (hs_res x) = sc_res (snd r) /\ hinv m' next1 p' scs /\
            (forall j y, alookup Nat.eqb j scs = Some y -> j <> i -> m' (hs_res y) = m (hs_res y))).
  { eexists _, _. split; [reflexivity|]. split; [rewrite m_set_other by auto; exact R|].
    split; [apply hinv_release; assumption|].
    intros j y Hy Hji. destruct (Hoth j y Hy Hji) as [A B]. rewrite m_set_other by exact B. exact A. }
  assert (Hdrop : m1 (hs_res x) = sc_res (snd r) /\ hinv m1 next1 p1 scs /\
            (forall j y, alookup Nat.eqb j scs = Some y -> j <> i -> m1 (hs_res y) = m (hs_res y))).
  { split; [exact R|]. split; [exact Hinv2|]. intros j y Hy Hji. apply (Hoth j y Hy Hji). }
  destruct Hrel as [m2 [p2 [Erel Hrel]]].
  destruct (fst r) as [[]| | | |]; cbn [fst snd];
    try (rewrite Erel; exists m2, next1, p2; split; [reflexivity | exact Hrel]);
    (destruct Hep as [-> | ->]; cbn [fold_left fst snd];
      [exists m1, next1, p1; split; [reflexivity | exact Hdrop]
      | rewrite Erel; exists m2, next1, p2; split; [reflexivity | exact Hrel]]).
Qed.

(* scanner i as the pool-free model sees it *)
Definition habs (m : mem) (scs : list (nat * hscanner)) (i : nat) : option pscanner :=
  option_map (hs_abs m) (alookup Nat.eqb i scs).

Lemma habs_same m scs i x : habs m (set_hsc i (Some x) scs) i = Some (hs_abs m x).
Proof. unfold habs. rewrite alookup_set_hsc, Nat.eqb_refl. reflexivity. Qed.

Lemma habs_other m m' scs i s j :
  j <> i -> (forall y, alookup Nat.eqb j scs = Some y -> m' (hs_res y) = m (hs_res y)) ->
  habs m' (set_hsc i s scs) j = habs m scs j.
Proof.
  intros Hne H. unfold habs. rewrite alookup_set_hsc.
  assert (E : option_map (hs_abs m') (alookup Nat.eqb j scs) = option_map (hs_abs m) (alookup Nat.eqb j scs)).
  { destruct (alookup Nat.eqb j scs) as [y|]; [|reflexivity]. cbn [option_map]. unfold hs_abs, hs_view. rewrite (H y eq_refl). reflexivity. }
  destruct s; [|exact E]. destruct (Nat.eqb_spec j i); [contradiction | exact E].
Qed.

Lemma hinv_set_held m next p scs a v : hinv m next p scs -> held next p scs a -> hinv (m_set m a v) next p scs.
Proof.
  intros H [H1 [H2 _]]. apply (hinv_frame m _ next p scs (fun b => b = a) H).
  - intros b Hb. apply m_set_other. exact Hb.
  - intros b ->. split; assumption.
Qed.

Lemma hinv_set_res m next p scs i x v :
  hinv m next p scs -> alookup Nat.eqb i scs = Some x -> hinv (m_set m (hs_res x) v) next p scs.
Proof.
  intros H Hx. apply (hinv_frame m _ next p scs (fun b => b = hs_res x) H).
  - intros b Hb. apply m_set_other. exact Hb.
  - intros b ->. apply (hi_res _ _ _ _ H i x Hx).
Qed.

Lemma res_other m next p scs i j x y :
  hinv m next p scs -> alookup Nat.eqb i scs = Some x -> alookup Nat.eqb j scs = Some y -> j <> i -> hs_res y <> hs_res x.
Proof. intros H Hx Hy Hne E. apply Hne. apply (hi_inj _ _ _ _ H j i y x Hy Hx E). Qed.

Definition hst_inv (st : hstate) : Prop := hinv (hm st) (hnext st) (hpool st) (hscs st).

Ltac on_scanner i scs m x Hx :=
  let Hab := fresh "Hab" in
  destruct (alookup Nat.eqb i scs) as [x|] eqn:Hx;
  [ assert (Hab : habs m scs i = Some (hs_abs m x)) by (unfold habs; rewrite Hx; reflexivity)
  | assert (Hab : habs m scs i = None) by (unfold habs; rewrite Hx; reflexivity) ];
  rewrite !Hab; cbn [fst snd hm hnext hpool hscs sc_step];
  [ | cbn [set_hsc]; split; [reflexivity|]; split; [assumption|]; split; [intros; reflexivity | assumption] ].

Theorem heap_step_sim ep st i op ch :
  herr_ok ep -> hst_inv st -> op_wf op ->
  fst (heap_step ep st (i, op, ch)) = fst (sc_step (habs (hm st) (hscs st) i) op) /\
  habs (hm (snd (heap_step ep st (i, op, ch)))) (hscs (snd (heap_step ep st (i, op, ch)))) i
    = snd (sc_step (habs (hm st) (hscs st) i) op) /\
  (forall j, j <> i -> habs (hm (snd (heap_step ep st (i, op, ch)))) (hscs (snd (heap_step ep st (i, op, ch)))) j
                      = habs (hm st) (hscs st) j) /\
  hst_inv (snd (heap_step ep st (i, op, ch))).
Proof.
  destruct st as [m next p scs]. unfold hst_inv. cbn [hm hnext hpool hscs]. intros Hep Hinv Hop.
  unfold heap_step. cbn [hm hnext hpool hscs].
  destruct op as [conts mc| |b|hs|ord q ch2|ord q| |]; cbn [h_step].
  - (* ONew *)
    destruct (apool_get next p ch) as [[b next1] p1] eqn:G.
    destruct (apool_get_ok _ _ _ _ _ _ _ _ Hinv G) as [Hinv1 [Hheld Hb]].
    cbn [fst snd hm hnext hpool hscs sc_step]. split; [reflexivity|]. split; [|split].
    + rewrite habs_same. unfold hs_abs, hs_view. cbn [hs_conts hs_maxconj hs_debug hs_inited hs_ended hs_res].
      rewrite Hb. reflexivity.
    + intros j Hj. apply habs_other; auto.
    + apply hinv_set_new; cbn [hs_res hs_conts]; assumption.
  - (* OReset *)
    on_scanner i scs m x Hx.
    + split; [reflexivity|]. split; [|split].
      * rewrite habs_same.
        unfold hs_abs, hs_view, ps_set. cbn. rewrite m_set_same. reflexivity.
      * intros j Hj. apply habs_other; [exact Hj|].
        intros y Hy. apply m_set_other. eapply res_other; eauto.
      * eapply hinv_set_same_res; [eapply hinv_set_res; eauto | exact Hx | reflexivity | reflexivity].
  - (* OSetDebug *)
    on_scanner i scs m x Hx.
    + split; [reflexivity|]. split; [|split].
      * rewrite habs_same. reflexivity.
      * intros j Hj. apply habs_other; auto.
      * eapply hinv_set_same_res; eauto.
  - (* OHint *)
    on_scanner i scs m x Hx.
    + cbn [hs_abs ps_maxconj ps_sc].
      destruct (sc_with_hint (hs_maxconj x) (hs_view m x) hs) as [s'|] eqn:Eh; cbn [fst snd hm hnext hpool hscs].
      * split; [reflexivity|]. split; [|split].
        -- rewrite habs_same. unfold hs_abs, hs_view, ps_set. cbn. rewrite m_set_same, scanner_eta. reflexivity.
        -- intros j Hj. apply habs_other; [exact Hj|]. intros y Hy. apply m_set_other. eapply res_other; eauto.
        -- eapply hinv_set_same_res; [eapply hinv_set_res; eauto | exact Hx | reflexivity | reflexivity].
      * split; [reflexivity|]. split; [|split].
        -- rewrite habs_same. reflexivity.
        -- intros j Hj. apply habs_other; auto.
        -- eapply hinv_set_same_res; eauto.
  - (* ORetrieve *)
    on_scanner i scs m x Hx.
    cbn [hs_abs ps_conts ps_sc ps_debug].
    destruct (h_retrieve_spec ep (pick ord (hs_conts x)) q (hs_inited x, hs_ended x) m next p scs i x ch Hep Hinv Hx
                (pick_wf ord _ (hi_wf _ _ _ _ Hinv i x Hx))) as [m1 [next1 [p1 [E [R [Hinv1 Hoth]]]]]].
    cbn [fst snd] in E, R. fold (hs_view m x) in E, R. rewrite E.
    destruct (sc_retrieve_st (pick ord (hs_conts x)) q (hs_view m x)) as [r s']. cbn [fst snd] in *.
    assert (Herr :
      habs m1 (set_hsc i (Some (hs_with x (hs_debug x) (sc_inited s') (sc_ended s'))) scs) i
        = Some (ps_set (hs_abs m x) (hs_debug x) s') /\
      (forall j, j <> i -> habs m1 (set_hsc i (Some (hs_with x (hs_debug x) (sc_inited s') (sc_ended s'))) scs) j = habs m scs j) /\
      hinv m1 next1 p1 (set_hsc i (Some (hs_with x (hs_debug x) (sc_inited s') (sc_ended s'))) scs)).
    { split; [|split].
      - rewrite habs_same. unfold hs_abs, hs_view, ps_set. cbn. rewrite R, scanner_eta. reflexivity.
      - intros j Hj. apply habs_other; [exact Hj|]. intros y Hy. apply (Hoth j y Hy Hj).
      - eapply hinv_set_same_res; eauto. }
    destruct r as [[]| | | |]; cbn [fst snd hm hnext hpool hscs];
      try (split; [reflexivity | exact Herr]).
    destruct (apool_get next1 p1 ch2) as [[db next2] p2] eqn:G2.
    destruct (apool_get_ok _ _ _ _ _ _ _ _ Hinv1 G2) as [Hinv2 [Hheld Hdb]].
    cbn [release fst snd hm hnext hpool hscs].
    assert (Hne : hs_res x <> db) by (destruct Hheld as [_ [_ H3]]; apply (H3 i x Hx)).
    split; [|split; [|split]].
    + rewrite m_set_same, Hdb, R. reflexivity.
    + rewrite habs_same. unfold hs_abs, hs_view, ps_set. cbn. rewrite !m_set_other by exact Hne.
      rewrite R, scanner_eta. reflexivity.
    + intros j Hj. apply habs_other; [exact Hj|]. intros y Hy.
      assert (hs_res y <> db) by (destruct Hheld as [_ [_ H3]]; apply (H3 j y Hy)).
      rewrite !m_set_other by assumption. apply (Hoth j y Hy Hj).
    + eapply hinv_set_same_res; [|exact Hx|reflexivity|reflexivity].
      apply hinv_release; [|exact Hheld]. apply hinv_set_held; assumption.
  - (* ORetrieveDocs *)
    on_scanner i scs m x Hx.
    cbn [hs_abs ps_conts ps_sc ps_debug].
    destruct (h_retrieve_spec ep (pick ord (hs_conts x)) q (hs_inited x, hs_ended x) m next p scs i x ch Hep Hinv Hx
                (pick_wf ord _ (hi_wf _ _ _ _ Hinv i x Hx))) as [m1 [next1 [p1 [E [R [Hinv1 Hoth]]]]]].
    cbn [fst snd] in E, R. fold (hs_view m x) in E, R. rewrite E.
    destruct (sc_retrieve_st (pick ord (hs_conts x)) q (hs_view m x)) as [r s']. cbn [fst snd] in *.
    assert (Hall :
      habs m1 (set_hsc i (Some (hs_with x (hs_debug x) (sc_inited s') (sc_ended s'))) scs) i
        = Some (ps_set (hs_abs m x) (hs_debug x) s') /\
      (forall j, j <> i -> habs m1 (set_hsc i (Some (hs_with x (hs_debug x) (sc_inited s') (sc_ended s'))) scs) j = habs m scs j) /\
      hinv m1 next1 p1 (set_hsc i (Some (hs_with x (hs_debug x) (sc_inited s') (sc_ended s'))) scs)).
    { split; [|split].
      - rewrite habs_same. unfold hs_abs, hs_view, ps_set. cbn. rewrite R, scanner_eta. reflexivity.
      - intros j Hj. apply habs_other; [exact Hj|]. intros y Hy. apply (Hoth j y Hy Hj).
      - eapply hinv_set_same_res; eauto. }
    destruct r as [[]| | | |]; cbn [fst snd hm hnext hpool hscs]; (split; [try rewrite R; reflexivity | exact Hall]).
  - (* ORaw *)
    on_scanner i scs m x Hx.
    + split; [reflexivity|]. split; [|split].
      * rewrite habs_same. reflexivity.
      * intros j Hj. apply habs_other; auto.
      * eapply hinv_set_same_res; eauto.
  - (* OAlloc *)
    destruct (apool_get next p ch) as [[b next1] p1] eqn:G.
    destruct (apool_get_ok _ _ _ _ _ _ _ _ Hinv G) as [Hinv1 _].
    cbn [fst snd hm hnext hpool hscs sc_step]. split; [reflexivity|].
    destruct (alookup Nat.eqb i scs) as [x|] eqn:Hx.
    + split; [|split].
      * rewrite habs_same. unfold habs. rewrite Hx. reflexivity.
      * intros j Hj. apply habs_other; auto.
      * eapply hinv_set_same_res; eauto.
    + cbn [set_hsc]. split; [reflexivity|]. split; [intros; reflexivity | exact Hinv1].
Qed.

Theorem heap_run_pure ep h : forall st i,
  herr_ok ep -> hst_inv st -> hist_wf h ->
  answers_of i h (fst (heap_run ep h st)) = fst (sc_run (habs (hm st) (hscs st) i) (ops_of i h)) /\
  habs (hm (snd (heap_run ep h st))) (hscs (snd (heap_run ep h st))) i
    = snd (sc_run (habs (hm st) (hscs st) i) (ops_of i h)) /\
  hst_inv (snd (heap_run ep h st)).
Proof.
  induction h as [|[[j op] ch] rest IH]; intros st i Hep Hinv Hh; cbn [heap_run].
  - split; [reflexivity|]. split; [reflexivity | exact Hinv].
  - inversion Hh as [|? ? Ho Hrest]; subst. cbn [fst snd] in Ho.
    destruct (heap_step_sim ep st j op ch Hep Hinv Ho) as [Ha [Hs [Hoth Hinv1]]].
    destruct (heap_step ep st (j, op, ch)) as [a st1]. cbn [fst snd] in *.
    destruct (IH st1 i Hep Hinv1 Hrest) as [IH1 [IH2 IH3]].
    destruct (heap_run ep rest st1) as [az st2]. cbn [fst snd] in *.
    unfold answers_of, ops_of in *. cbn [combine filter map fst snd].
    destruct (Nat.eqb_spec j i) as [->|Hne]; cbn [map sc_run fst snd].
    + rewrite Hs in IH1, IH2.
      destruct (sc_step (habs (hm st) (hscs st) i) op) as [a' s1]. cbn [fst snd] in *. subst a'.
      destruct (sc_run s1 _) as [bz s2]. cbn [fst snd] in *. split; [f_equal; exact IH1|]. split; assumption.
    + rewrite (Hoth i) in IH1, IH2 by congruence. split; [exact IH1|]. split; assumption.
Qed.

Lemma hst_init_inv : hst_inv hst_init.
Proof.
  constructor; cbn; try discriminate; auto.
  - constructor.
  - intros a [].
Qed.

Corollary heap_run_pure_init ep h i :
  herr_ok ep -> hist_wf h ->
  answers_of i h (fst (heap_run ep h hst_init)) = fst (sc_run None (ops_of i h)) /\
  hst_inv (snd (heap_run ep h hst_init)).
Proof.
  intros Hep Hh. destruct (heap_run_pure ep h hst_init i Hep hst_init_inv Hh) as [A [_ B]]. split; assumption.
Qed.

(* content model and identity model give the same answers (both equal the pool-free ones) *)
Corollary heap_run_eq_pool_run ep put clr h i :
  herr_ok ep -> policy_ok put clr -> hist_wf h ->
  answers_of i h (fst (heap_run ep h hst_init)) = answers_of i h (fst (pool_run put clr h st_init)).
Proof.
  intros Hep Hpol Hh. destruct (heap_run_pure_init ep h i Hep Hh) as [A _].
  destruct (roaring_pool_pure_init put clr h i Hpol Hh) as [B _]. rewrite A, B. reflexivity.
Qed.

Lemma answers_of_all i h az : length az = length h -> Forall (fun e => fst (fst e) = i) h -> answers_of i h az = az.
Proof.
  revert az. induction h as [|[[j op] ch] rest IH]; intros [|a az] Hl Hf; cbn in Hl; try discriminate; [reflexivity|].
  inversion Hf as [|? ? H1 H2]; subst. cbn [fst] in *. unfold answers_of in *. cbn [combine filter fst snd].
  rewrite Nat.eqb_refl. cbn [map snd]. f_equal. apply IH; [lia | exact H2].
Qed.

Lemma heap_run_length ep h : forall st, length (fst (heap_run ep h st)) = length h.
Proof.
  induction h as [|e rest IH]; intros st; cbn [heap_run]; [reflexivity|].
  destruct (heap_step ep st e) as [a st1]. specialize (IH st1). destruct (heap_run ep rest st1). cbn in *. lia.
Qed.

(* whatever happened before, a scanner that is Reset answers like the fresh scanner *)
Theorem heap_reset_retrieve_pure ep h0 i x c1 c2 ch2 ord q :
  herr_ok ep -> hist_wf h0 ->
  alookup Nat.eqb i (hscs (snd (heap_run ep h0 hst_init))) = Some x ->
  fst (heap_run ep [(i, OReset, c1); (i, ORetrieve ord q ch2, c2)] (snd (heap_run ep h0 hst_init))) =
  [AUnit; retrieve_answer (sc_retrieve (pick ord (hs_conts x)) q fresh_scanner)].
Proof.
  intros Hep Hh Hl. destruct (heap_run_pure_init ep h0 i Hep Hh) as [_ Hinv].
  set (st := snd (heap_run ep h0 hst_init)) in *.
  set (h2 := [(i, OReset, c1); (i, ORetrieve ord q ch2, c2)]).
  assert (Hh2 : hist_wf h2) by (repeat constructor).
  destruct (heap_run_pure ep h2 st i Hep Hinv Hh2) as [A _].
  rewrite answers_of_all in A; [|apply heap_run_length | repeat constructor].
  rewrite A. unfold habs. rewrite Hl. unfold h2, ops_of. cbn [filter fst snd map]. rewrite Nat.eqb_refl.
  cbn [filter map fst snd sc_run sc_step option_map hs_abs ps_set ps_conts ps_sc ps_debug].
  rewrite retrieve_answer_st.
  destruct (sc_retrieve_st (pick ord (hs_conts x)) q fresh_scanner) as [[[]| | | |] s']; reflexivity.
Qed.

Theorem heap_reset_hint_retrieve_pure ep h0 i x c1 c2 c3 ch2 hs ord q :
  herr_ok ep -> hist_wf h0 ->
  alookup Nat.eqb i (hscs (snd (heap_run ep h0 hst_init))) = Some x ->
  exists s0, sc_with_hint (hs_maxconj x) fresh_scanner hs = Some s0 /\
  fst (heap_run ep [(i, OReset, c1); (i, OHint hs, c2); (i, ORetrieve ord q ch2, c3)] (snd (heap_run ep h0 hst_init))) =
  [AUnit; AUnit; retrieve_answer (sc_retrieve (pick ord (hs_conts x)) q s0)].
Proof.
  intros Hep Hh Hl. destruct (heap_run_pure_init ep h0 i Hep Hh) as [_ Hinv].
  set (st := snd (heap_run ep h0 hst_init)) in *.
  set (h2 := [(i, OReset, c1); (i, OHint hs, c2); (i, ORetrieve ord q ch2, c3)]).
  assert (Hh2 : hist_wf h2) by (repeat constructor).
  eexists. split; [reflexivity|].
  destruct (heap_run_pure ep h2 st i Hep Hinv Hh2) as [A _].
  rewrite answers_of_all in A; [|apply heap_run_length | repeat constructor].
  rewrite A. unfold habs. rewrite Hl. unfold h2, ops_of. cbn [filter fst snd map]. rewrite Nat.eqb_refl.
  cbn [filter map fst snd]. rewrite ?Nat.eqb_refl. cbn [filter map fst snd].
  cbn [sc_run sc_step option_map hs_abs ps_set ps_conts ps_sc ps_debug ps_maxconj
       sc_with_hint fresh_scanner sc_inited sc_ended sc_res fst snd].
  rewrite retrieve_answer_st.
  match goal with |- context [sc_retrieve_st ?a ?b ?c] => destruct (sc_retrieve_st a b c) as [[[]| | | |] s'] end; reflexivity.
Qed.

(* ================================================================== *)
(* Examples: non-vacuity and necessity                                 *)
(* ================================================================== *)
Local Open Scope Z_scope.

(* the index of the seeded mutation's demo: fields age (1) and tag (2), number parser;
   document 1 = (age in {10}), document 2 = (tag in {7}); built by the builder of Model/Roaring.v *)
Definition ex_age : fname := 1%N.
Definition ex_tag : fname := 2%N.
Definition ex_builder : rbuilder :=
  rb_configure (rb_configure new_rbuilder ex_age RDefault PNumber) ex_tag RDefault PNumber.
Definition ex_eq (z : Z) : expr := {| e_incl := true; e_op := OpEQ; e_val := VInt KI z |}.
Definition ex_docs : list doc :=
  [ {| d_id := 1; d_conjs := [[(ex_age, [ex_eq 10])]] |};
    {| d_id := 2; d_conjs := [[(ex_tag, [ex_eq 7])]] |} ].
Definition ex_conts : list (fname * rcontainer) := rb_conts (fst (radd_documents ex_builder ex_docs)).
Definition ex_mc : Z := rb_maxconj (fst (radd_documents ex_builder ex_docs)).

(* conjunction 256 = (doc 1, 0) is a wildcard on tag, conjunction 512 = (doc 2, 0) a wildcard on age *)
Example ex_conts_value : ex_conts =
  [(1%N, RCDefault PNumber [512%N] [(PNum 10, [256%N])] []);
   (2%N, RCDefault PNumber [256%N] [(PNum 7, [512%N])] [])].
Proof. vm_compute. reflexivity. Qed.

Lemma ex_conts_wf : conts_wf ex_conts.
Proof. apply radd_documents_wf. repeat apply rb_configure_wf. exact new_rbuilder_wf. Qed.

Definition q_fail : assignment := [(ex_age, VInt KI 10); (ex_tag, VBool true)].   (* tag: rejected by the parser *)
Definition q_ok : assignment := [(ex_age, VInt KI 99); (ex_tag, VInt KI 7)].      (* satisfies document 2 only *)

(* the failing retrieval: field age is merged and the scratch cleared, then the tag container ORs its
   wildcard postings {256} into the scratch and fails -- the scratch is NOT empty on the error exit *)
Example ex_scratch_dirty_on_error :
  p_loop ex_conts q_fail fresh_scanner [] =
  (PErr, {| sc_inited := true; sc_ended := false; sc_res := [256%N; 512%N] |}, [256%N]).
Proof. vm_compute. reflexivity. Qed.

(* two scanners; scanner 0 fails, scanner 1 retrieves; scanner 0 is Reset and retrieves again.
   Every Get takes pooled object number 0 when there is one. *)
Definition ex_hist : list (nat * rpop * nat) :=
  [ (0%nat, ONew ex_conts ex_mc, 0%nat);
    (1%nat, ONew ex_conts ex_mc, 0%nat);
    (0%nat, ORetrieve [0;1]%nat q_fail 0%nat, 0%nat);
    (1%nat, ORetrieve [0;1]%nat q_ok 0%nat, 0%nat);
    (1%nat, ORaw, 0%nat);
    (0%nat, ORaw, 0%nat);
    (0%nat, OReset, 0%nat);
    (0%nat, ORetrieve [1;0]%nat q_ok 0%nat, 0%nat);
    (0%nat, ORaw, 0%nat) ].

Lemma ex_hist_wf : hist_wf ex_hist.
Proof. repeat (constructor; try exact I; try exact ex_conts_wf). Qed.

Definition ex_expected : list answer :=
  [AUnit; AUnit; AFail PErr; ADocs [2%N]; ARaw [512%N]; ARaw [256%N; 512%N]; AUnit; ADocs [2%N]; ARaw [512%N]].

(* the code as it is (scratch dropped on the error exit), and the variant that releases it *)
Example ex_code_as_is : fst (pool_run false false ex_hist st_init) = ex_expected.
Proof. vm_compute. reflexivity. Qed.
Example ex_release_on_error : fst (pool_run true true ex_hist st_init) = ex_expected.
Proof. vm_compute. reflexivity. Qed.
(* ... which is what the pool-free scanners answer, each on its own operations *)
Example ex_pure_0 : fst (sc_run None (ops_of 0 ex_hist)) = answers_of 0 ex_hist ex_expected.
Proof. vm_compute. reflexivity. Qed.
Example ex_pure_1 : fst (sc_run None (ops_of 1 ex_hist)) = [AUnit; ADocs [2%N]; ARaw [512%N]].
Proof. vm_compute. reflexivity. Qed.
(* the theorem instantiated (not by computation) *)
Example ex_by_theorem i :
  answers_of i ex_hist (fst (pool_run false false ex_hist st_init)) = fst (sc_run None (ops_of i ex_hist)).
Proof. apply roaring_pool_pure_init; [left; reflexivity | exact ex_hist_wf]. Qed.

(* NECESSITY, first seeded mutation (`defer bitmapPool.Put(tmpPl.Bitmap)`): the scratch goes back
   uncleared; scanner 1's retrieval starts from it and returns the spurious conjunction 256 = document 1,
   whose expression  age in {10}  is false under age = 99 *)
Example ex_mutant_uncleared :
  fst (pool_run true false ex_hist st_init) =
  [AUnit; AUnit; AFail PErr; ADocs [1%N; 2%N]; ARaw [256%N; 512%N]; ARaw [256%N; 512%N]; AUnit; ADocs [2%N]; ARaw [512%N]].
Proof. vm_compute. reflexivity. Qed.
(* the invariant is what breaks: after the failing retrieval the pool holds a non-empty bitmap *)
Example ex_mutant_pool :
  st_pool (snd (pool_run true false (firstn 3 ex_hist) st_init)) = [[256%N]].
Proof. vm_compute. reflexivity. Qed.
(* and the answer now depends on the Get choice: with New() instead of the pooled object it is right *)
Example ex_mutant_choice_dependent :
  nth 3 (fst (pool_run true false
           [ (0%nat, ONew ex_conts ex_mc, 0%nat); (1%nat, ONew ex_conts ex_mc, 0%nat);
             (0%nat, ORetrieve [0;1]%nat q_fail 0%nat, 0%nat);
             (1%nat, ORetrieve [0;1]%nat q_ok 7%nat, 7%nat) ] st_init)) AUnit = ADocs [2%N].
Proof. vm_compute. reflexivity. Qed.
(* a scanner created after the failure gets the dirty bitmap as conjIDResults *)
Definition ex_hist2 : list (nat * rpop * nat) :=
  [ (0%nat, ONew ex_conts ex_mc, 0%nat);
    (0%nat, ORetrieve [0;1]%nat q_fail 0%nat, 0%nat);
    (1%nat, ONew ex_conts ex_mc, 0%nat);
    (1%nat, ORetrieve [0;1]%nat q_ok 0%nat, 0%nat);
    (1%nat, ORaw, 0%nat) ].
Example ex2_code_as_is :
  fst (pool_run false false ex_hist2 st_init) = [AUnit; AFail PErr; AUnit; ADocs [2%N]; ARaw [512%N]].
Proof. vm_compute. reflexivity. Qed.
Example ex2_mutant_uncleared :
  fst (pool_run true false ex_hist2 st_init) = [AUnit; AFail PErr; AUnit; ADocs [1%N; 2%N]; ARaw [256%N; 512%N]].
Proof. vm_compute. reflexivity. Qed.

(* ---- with object identities ---- *)
Example exh_code_as_is : fst (heap_run [] ex_hist hst_init) = ex_expected.
Proof. vm_compute. reflexivity. Qed.
Example exh_release_on_error : fst (heap_run [true] ex_hist hst_init) = ex_expected.
Proof. vm_compute. reflexivity. Qed.
Example exh_mutant_uncleared :
  fst (heap_run [false] ex_hist2 hst_init) = [AUnit; AFail PErr; AUnit; ADocs [1%N; 2%N]; ARaw [256%N; 512%N]].
Proof. vm_compute. reflexivity. Qed.
(* NECESSITY, second seeded mutation (released in front of `return err` AND by the defer): the pool holds
   the same bitmap twice; the new scanner gets it as conjIDResults and then again as tmpPl, so
   tmpPl.Clear() wipes the result: document 2 is lost.  (The content model cannot express this.) *)
Example exh_mutant_double_release_pool :
  hpool (snd (heap_run [true; true] (firstn 2 ex_hist2) hst_init)) = [1%nat; 1%nat].
Proof. vm_compute. reflexivity. Qed.
Example exh_mutant_double_release :
  fst (heap_run [true; true] ex_hist2 hst_init) = [AUnit; AFail PErr; AUnit; ADocs []; ARaw []].
Proof. vm_compute. reflexivity. Qed.
Example ex_double_release_invisible_without_identities :
  fst (pool_run true true ex_hist2 st_init) = [AUnit; AFail PErr; AUnit; ADocs [2%N]; ARaw [512%N]].
Proof. vm_compute. reflexivity. Qed.

(* hinted retrieval after a failure elsewhere: only hinted documents, pure *)
Example ex_hinted :
  fst (pool_run false false
         (ex_hist2 ++ [(1%nat, OReset, 0%nat); (1%nat, OHint [1], 0%nat); (1%nat, ORetrieve [0;1]%nat q_ok 0%nat, 0%nat);
                       (1%nat, OReset, 0%nat); (1%nat, OHint [2; 5], 0%nat); (1%nat, ORetrieve [1;0]%nat q_ok 0%nat, 0%nat);
                       (1%nat, OHint [2], 0%nat)]) st_init) =
  [AUnit; AFail PErr; AUnit; ADocs [2%N]; ARaw [512%N];
   AUnit; AUnit; ADocs []; AUnit; AUnit; ADocs [2%N]; AFail PPanic].
Proof. vm_compute. reflexivity. Qed.

Print Assumptions roaring_pool_pure.
Print Assumptions roaring_pool_pure_init.
Print Assumptions choice_independent.
Print Assumptions reset_retrieve_pure.
Print Assumptions new_retrieve_pure.
Print Assumptions reset_hint_retrieve_pure.
Print Assumptions radd_documents_wf.
Print Assumptions heap_run_pure.
Print Assumptions heap_run_pure_init.
Print Assumptions heap_reset_retrieve_pure.
Print Assumptions heap_reset_hint_retrieve_pure.
