(* C08  A conjunction that fails to parse leaves no trace, under every policy.  Statements only.
   Model: Model/Index.v add_conj / add_document with wildcard_first = false (the repaired tree).
   The pinned tree registered the match-everything entry before parsing; see C08_refuted_on_pinned_tree. *)
From Coq Require Import List NArith ZArith Bool.
From BE Require Import Model.GoTypes Model.GoVal Model.Parsers Model.Index Proofs.BuilderProof Proofs.NoTrace.
From BE Require Gen.IdsGen.
Import ListNotations.
Local Open Scope Z_scope.

(* no match-everything entry for a conjunction that does not parse: all policies, both index types,
   any container mix, any position/kind of the unparseable expression *)
Theorem C08_bad_conj_no_wildcard : forall d st i c st' out,
  add_conj false d st (i, c) = (st', out) ->
  (forall cid, IdsGen.NewConjID d i (calc_size c) = Some cid ->
     forall txs, snd (index_conj (ensure_cont st (calc_size c)) (calc_size c) cid c []) <> POk txs) ->
  b_z st' = b_z st.
Proof. exact bad_conj_no_wildcard. Qed.

(* NO POSTING ENTRY EITHER: the list of every entry id stored anywhere in the builder state (all posting
   lists of all holders of all containers, and the wildcard list) is literally unchanged by a conjunction
   that does not parse -- every policy, both index types, every container mix *)
Theorem C08_bad_conj_no_trace : forall d st i c st' out,
  add_conj false d st (i, c) = (st', out) ->
  (forall cid, IdsGen.NewConjID d i (calc_size c) = Some cid ->
     forall txs, snd (index_conj (ensure_cont st (calc_size c)) (calc_size c) cid c []) <> POk txs) ->
  st_entries st' = st_entries st.
Proof. exact bad_conj_no_trace. Qed.

(* whole documents, every policy: whatever AddDocument adds is an entry of a conjunction of that
   document THAT PARSES (so under Skip the other conjunctions are indexed exactly as their own entries,
   and a bad one contributes nothing) *)
Theorem C08_document_adds_only_entries_of_parsing_conjunctions : forall st d st' out,
  add_document false st d = (st', out) -> forall e, In e (st_entries st') ->
  In e (st_entries st) \/
  exists i c cid b, 0 <= i /\ nth_error (d_conjs d) (Z.to_nat i) = Some c /\
                    IdsGen.NewConjID (d_id d) i (calc_size c) = Some cid /\
                    conj_parses st c = true /\ e = IdsGen.NewEntryID cid b.
Proof. exact add_document_entries. Qed.

(* Error and (recovered) Panic abandon a document in the same state *)
Theorem C08_error_and_panic_leave_the_same_state : forall wf st1 st2 d,
  b_kind st2 = b_kind st1 -> b_thr st2 = b_thr st1 -> b_fields st2 = b_fields st1 ->
  b_conts st2 = b_conts st1 -> b_z st2 = b_z st1 -> b_parsers st2 = b_parsers st1 ->
  b_policy st1 = PolError -> b_policy st2 = PolPanic ->
  fst (add_document wf st2 d) = set_policy PolPanic (fst (add_document wf st1 d)) /\
  st_entries (fst (add_document wf st2 d)) = st_entries (fst (add_document wf st1 d)) /\
  out_ok (snd (add_document wf st2 d)) = out_ok (snd (add_document wf st1 d)).
Proof. exact error_panic_same_entries. Qed.

(* documents rejected outright (no conjunction, more than 255) leave the builder untouched *)
Theorem C08_rejected_unchanged : forall wf st d,
  d_conjs d = [] \/ 255 < Z.of_nat (length (d_conjs d)) -> add_document wf st d = (st, AddErr).
Proof. exact rejected_unchanged. Qed.

(* the pinned tree (wildcard registered first) violated the property: a size-0 conjunction whose only
   expression is an unparseable exclude leaves its match-everything entry under Skip *)
Definition bad_excl_doc : doc :=
  {| d_id := 5; d_conjs := [ [(0%N, [ {| e_incl := false; e_op := OpEQ; e_val := VBool true |} ])] ] |}.
Theorem C08_refuted_on_pinned_tree :
  let st0 := new_builder IKGroups PolSkip 256 (fun _ => PCommon) in
  b_z (fst (add_document true st0 bad_excl_doc)) <> [] /\ snd (add_document true st0 bad_excl_doc) = AddOk /\
  b_z (fst (add_document false st0 bad_excl_doc)) = [].
Proof. vm_compute. repeat split. discriminate. Qed.

Print Assumptions C08_bad_conj_no_wildcard.
Print Assumptions C08_bad_conj_no_trace.
Print Assumptions C08_document_adds_only_entries_of_parsing_conjunctions.
Print Assumptions C08_error_and_panic_leave_the_same_state.
Print Assumptions C08_rejected_unchanged.
Print Assumptions C08_refuted_on_pinned_tree.
