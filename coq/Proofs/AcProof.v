(* C05: substring semantics of the pattern holder model. *)
From Coq Require Import List NArith ZArith Bool Lia.
From BE Require Import Model.GoTypes Model.GoVal Model.Parsers Model.Index.
Import ListNotations.

Lemma is_prefix_spec k t : is_prefix k t = true <-> exists post, t = k ++ post.
Proof.
  revert t. induction k as [|x k IH]; intros t; cbn [is_prefix].
  - split; [intros _; exists t; reflexivity|auto].
  - destruct t as [|y t].
    + split; [discriminate|intros (post & H); discriminate].
    + rewrite andb_true_iff, N.eqb_eq, IH. split.
      * intros (-> & post & ->). exists post. reflexivity.
      * intros (post & H). inversion H; subst. split; auto. exists post; auto.
Qed.

(* the model's `substring` is: k occurs as a contiguous block of t *)
Theorem substring_spec k t : substring k t = true <-> exists pre post, t = pre ++ k ++ post.
Proof.
  induction t as [|y t IH]; cbn [substring].
  - rewrite orb_false_r, is_prefix_spec. split.
    + intros (post & H). exists [], post. exact H.
    + intros (pre & post & H). destruct pre; cbn in H; [exists post; auto|discriminate].
  - rewrite orb_true_iff, is_prefix_spec, IH. split.
    + intros [(post & H)|(pre & post & H)].
      * exists [], post. exact H.
      * exists (y :: pre), post. cbn. rewrite H. reflexivity.
    + intros (pre & post & H). destruct pre as [|p pre]; cbn in H.
      * left. exists post. exact H.
      * right. inversion H; subst. exists pre, post. reflexivity.
Qed.

(* several assigned texts are joined by exactly one separator *)
Lemma join_sep_two sep a b : join_sep sep [a; b] = a ++ sep ++ b.
Proof. reflexivity. Qed.
Lemma join_sep_cons sep a b rest : join_sep sep (a :: b :: rest) = a ++ sep ++ join_sep sep (b :: rest).
Proof. reflexivity. Qed.

(* kw_found: on strings that are valid UTF-8 it IS the substring rule; a keyword holding an invalid byte is
   never found; in general the keyword is searched in the rune reading of the text *)
Lemma runes_valid t : valid_text t = true -> runes t = t.
Proof.
  unfold valid_text, runes. induction t as [|c t IH]; cbn [forallb map]; [reflexivity|].
  intros H. apply andb_prop in H. destruct H as [Hc Ht]. rewrite (IH Ht). unfold rune_of. rewrite Hc. reflexivity.
Qed.
Theorem kw_found_valid k t : valid_text k = true -> valid_text t = true -> kw_found k t = substring k t.
Proof. intros Hk Ht. unfold kw_found. rewrite Hk, (runes_valid t Ht). reflexivity. Qed.
Theorem kw_found_invalid k t : valid_text k = false -> kw_found k t = false.
Proof. intros Hk. unfold kw_found. rewrite Hk. reflexivity. Qed.
Theorem kw_found_spec k t : kw_found k t = true <-> valid_text k = true /\ exists pre post, runes t = pre ++ k ++ post.
Proof. unfold kw_found. rewrite andb_true_iff, substring_spec. reflexivity. Qed.
Lemma kw_found_nil_r k : k <> [] -> kw_found k [] = false.
Proof. intros H. unfold kw_found. cbn [runes map]. destruct k; [contradiction|]. cbn [substring is_prefix]. apply andb_false_r. Qed.

(* which posting lists the pattern holder selects *)
Theorem ac_get_entries_spec fd fid vals v t : vals <> [] -> ac_query_text [32%N] v = POk t -> t <> [] ->
  exists ls, get_entries fd fid (HAc vals) v = POk ls /\
    forall l, In l ls <-> exists k, In (k, l) vals /\ kw_found k t = true /\ l <> [].
Proof.
  intros Hv Ht Hne. cbn [get_entries]. destruct vals as [|kv0 vals']; [contradiction|].
  rewrite Ht. cbn [pbind]. destruct t as [|c t']; [contradiction|].
  eexists. split; [reflexivity|]. intros l. unfold nonempty_lists. rewrite filter_In, in_flat_map. split.
  - intros ((kv & Hin & Hl) & Hnn). destruct (kw_found (fst kv) (c :: t')) eqn:E; [|contradiction].
    destruct Hl as [<-|[]]. exists (fst kv). destruct kv; cbn in *. repeat split; auto. destruct l; [discriminate|discriminate].
  - intros (k & Hin & Hs & Hnn). split.
    + exists (k, l). split; auto. cbn [fst snd]. rewrite Hs. left; reflexivity.
    + destruct l; [contradiction|reflexivity].
Qed.
