(* C10: model leg: every answer of the history against the pure model. *)
From Coq Require Import List NArith ZArith Bool.
From BE Require Import Corr.Common Corr.CheckE2E.
From BE Require Export Corr.SpecHist.
Import ListNotations.

Definition check_h (h : hist_case) : verdict :=
  let '(s, d, g) := spec_verdict_h h in
  let vs := map CheckE2E.model_verdict h in
  mk_verdict (forallb (fun v => fst v || negb (snd v)) vs) s (d && forallb snd vs) g.
Definition run (cs : list hist_case) := check_all check_h cs.
