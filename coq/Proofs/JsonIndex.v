(* C09, second half, against the BUILT index: the index built from the documents decoded from their own JSON
   encoding reports, for every supported assignment, exactly the conjunctions (document, position, size) that the
   index built from the original documents reports.
   Route: both indexes are related to Spec.sat_hits by SpecBridgeHoldersPolicy.index_sat_hits_holders_policy; its
   hypotheses are CARRIED ACROSS the round trip here (the decoded values are well formed and inside the modelled
   fragment; domain, sizes, skip condition, assignment domain are unchanged), and JsonProof.json_transparent
   says that sat_hits is the same. *)
From Coq Require Import List NArith ZArith Bool Lia Permutation.
From BE Require Import Model.GoTypes Model.GoVal Model.Parsers Model.Index Model.Spec Model.Json.
From BE Require Import Proofs.CanonProof Proofs.DenoteProof Proofs.HoldersBuildInv Proofs.IndexCorrectHolders Proofs.SpecBridge
                       Proofs.SpecBridgeHolders Proofs.IndexCorrectPolicy Proofs.SpecBridgeHoldersPolicy Proofs.JsonProof.
Import ListNotations.
Local Open Scope Z_scope.

(* the value and its immediate elements are safe scalars (or encodable non-scalars) *)
Definition ix_val_safe (v : gval) : bool :=
  match v with VSlice _ _ vs | VList _ vs | VArr _ vs => forallb elem_safe vs | _ => elem_safe v end.
(* json_safe, plus: immediate elements safe whatever the operator; no nil-like value under `in` on a range field
   (SpecBridgeHolders.nil_in_ok: the decoded nil interface is outside the domain of the index theorem there) *)
Definition json_safe_ix (fd : fdesc) (op : vop) (v : gval) : bool :=
  json_safe fd op v && ix_val_safe v &&
  match fd_cont fd, op with CRange, OpEQ => negb (nil_like v) | _, _ => true end.
Definition conj_safe_ix (fields : list fdesc) (parsers : fname -> parser_kind) (c : conj) : bool :=
  forallb (fun fe : fname * list expr =>
             forallb (fun e => json_safe_ix (field_desc fields parsers (fst fe)) (e_op e) (e_val e)) (snd fe)) c.
Definition doc_safe_ix (fields : list fdesc) (parsers : fname -> parser_kind) (d : doc) : bool :=
  forallb (conj_safe_ix fields parsers) (d_conjs d).

Lemma doc_safe_ix_safe fields parsers d : doc_safe_ix fields parsers d = true -> doc_safe fields parsers d = true.
Proof.
  unfold doc_safe_ix, doc_safe, conj_safe_ix, conj_safe, json_safe_ix. rewrite !forallb_forall. intros H c Hc.
  specialize (H c Hc). rewrite forallb_forall in *. intros fe Hfe. specialize (H fe Hfe). rewrite forallb_forall in *.
  intros e He. specialize (H e He). apply andb_true_iff in H. destruct H as [H _]. apply andb_true_iff in H. apply H.
Qed.

(* ---------- decoded values are well formed and modelled ---------- *)
(* a safe scalar comes back as a finite float64 (inside int64 if the original float was) or as the same string *)
Lemma scalar_transfer e e' : is_scalar e = true -> elem_safe e = true -> json_roundtrip e = Some e' ->
  (exists f, e' = VFloat false f /\ f_cls f = FFinite /\ (float_ok e -> Z.abs (f_ip f) < two63)) \/
  (exists s, e = VStr s /\ e' = VStr s).
Proof.
  intros Hsc Hs E. destruct e as [|k z|w f|s|s|b|t n vs|n vs|t vs|t n]; try discriminate; cbn [elem_safe] in Hs.
  - left. apply Z.leb_le in Hs. cbn [json_roundtrip] in E. rewrite (f64_of_Z_small z Hs) in E. injection E as <-.
    exists (fl_of_int z). split; [reflexivity|]. split; [reflexivity|]. intros _. cbn. unfold two53, two63 in *. lia.
  - left. cbn [json_roundtrip] in E. destruct (f_cls f) eqn:Ec; try discriminate.
    assert (v' : e' = VFloat false f).
    { destruct w; [|congruence]. cbn [negb orb] in Hs. unfold widen32 in E. rewrite Hs in E. cbn in E. congruence. }
    subst e'. exists f. split; [reflexivity|]. split; [exact Ec|]. intros [_ H]. exact H.
  - right. injection E as <-. eauto.
  - left. destruct (canonical_int_text s) as [z|] eqn:Ez; [|discriminate]. apply Z.leb_le in Hs.
    cbn [json_roundtrip] in E. unfold json_of_number in E. rewrite Ez, (f64_of_Z_small z Hs) in E. injection E as <-.
    exists (fl_of_int z). split; [reflexivity|]. split; [reflexivity|]. intros _. cbn. unfold two53, two63 in *. lia.
Qed.

Lemma elem_transfer e e' : elem_safe e = true -> json_roundtrip e = Some e' ->
  wf_shape e' /\ (float_ok e -> float_ok e') /\ (text_ok e -> text_ok e') /\ int_fits e'.
Proof.
  intros Hs E. destruct (is_scalar e) eqn:Hsc.
  - destruct (scalar_transfer e e' Hsc Hs E) as [(f & -> & Hc & Hb)|(s & -> & ->)].
    + cbn. repeat split; auto.
    + cbn. repeat split; auto.
  - pose proof (rt_nonscalar_plain e e' Hsc E) as P.
    destruct e' as [|? ?|? ?|?|?|?|? ? ?|[|] ?|? ?|[] [|]]; try contradiction; cbn; repeat split; auto.
Qed.

Lemma elems_transfer vs : forall l, forallb elem_safe vs = true -> all_some (map json_roundtrip vs) = Some l ->
  Forall wf_shape l /\ (Forall float_ok vs -> Forall float_ok l) /\ (Forall text_ok vs -> Forall text_ok l) /\ Forall int_fits l.
Proof.
  induction vs as [|e vs IH]; intros l Hs E; cbn [map all_some forallb] in *.
  - injection E as <-. repeat split; constructor.
  - apply andb_true_iff in Hs. destruct Hs as [He Hr]. destruct (json_roundtrip e) as [e'|] eqn:Ee; [|discriminate].
    destruct (all_some (map json_roundtrip vs)) as [r|] eqn:Er; [|discriminate]. injection E as <-.
    destruct (elem_transfer e e' He Ee) as (A & B & C & D). destruct (IH r Hr eq_refl) as (A' & B' & C' & D').
    split; [constructor; assumption|]. split; [|split; [|constructor; assumption]].
    + intros H. inversion H; subst. constructor; auto.
    + intros H. inversion H; subst. constructor; auto.
Qed.

Definition transferred (v v' : gval) : Prop :=
  wf_val v' /\ (modelled v -> modelled v') /\ (modelled_num v -> modelled_num v') /\ ints_fit v' /\ ac_mod v'.

Lemma tr_list v vs l : elems v = vs -> forallb elem_safe vs = true -> all_some (map json_roundtrip vs) = Some l ->
  transferred v (VList false l).
Proof.
  intros Ev Hv El. destruct (elems_transfer vs l Hv El) as (A & B & C & D).
  unfold transferred, wf_val, modelled_num, modelled, ints_fit. rewrite Ev. cbn [elems wf_shape float_ok text_ok int_fits ac_mod].
  split; [split; [exact I|exact A]|]. split; [intros [_ H]; split; [exact I|exact (B H)]|].
  split; [intros [[_ H1] [_ H2]]; split; [split; [exact I|exact (B H1)]|split; [exact I|exact (C H2)]]|].
  split; [split; [exact I|exact D]|exact I].
Qed.
Lemma tr_plain v v' : match v' with VNil | VBool _ | VOther Tmap false => True | _ => False end -> transferred v v'.
Proof.
  intros P. destruct v' as [|? ?|? ?|?|?|?|? ? ?|? ?|? ?|[] [|]]; try contradiction;
    unfold transferred, wf_val, modelled_num, modelled, ints_fit; cbn; repeat split; auto; constructor.
Qed.
Lemma tr_scalar v v' : is_scalar v = true -> elem_safe v = true -> json_roundtrip v = Some v' -> transferred v v'.
Proof.
  intros Hsc Hs E. destruct (scalar_transfer v v' Hsc Hs E) as [(f & -> & Hc & Hb)|(s & -> & ->)].
  - unfold transferred, wf_val, modelled_num, modelled, ints_fit. cbn [elems wf_shape float_ok text_ok int_fits ac_mod].
    repeat split; auto; try constructor; try tauto.
  - unfold transferred, wf_val, modelled_num, modelled, ints_fit. cbn [elems wf_shape float_ok text_ok int_fits ac_mod].
    assert (F : forall P : gval -> Prop, Forall P []) by constructor.
    pose proof (F wf_shape). pose proof (F float_ok). pose proof (F text_ok). pose proof (F int_fits). tauto.
Qed.

Lemma value_transfer v v' : ix_val_safe v = true -> json_roundtrip v = Some v' -> transferred v v'.
Proof.
  intros Hs E. destruct v as [|k z|w f|s|s|b|t n vs|n vs|t vs|t n]; cbn [ix_val_safe] in Hs.
  - injection E as <-. apply tr_plain. exact I.
  - apply tr_scalar; auto.
  - apply tr_scalar; auto.
  - apply tr_scalar; auto.
  - apply tr_scalar; auto.
  - injection E as <-. apply tr_plain. exact I.
  - destruct (rt_slice_shape _ _ _ _ E) as [[-> ->]|[-> (l & El & ->)]]; [apply tr_plain; exact I|].
    apply (tr_list (VSlice t false vs) vs l eq_refl Hs El).
  - destruct (rt_list_shape _ _ _ E) as [[-> ->]|[-> (l & El & ->)]]; [apply tr_plain; exact I|].
    apply (tr_list (VList false vs) vs l eq_refl Hs El).
  - destruct (rt_arr_shape _ _ _ E) as (l & El & ->). apply (tr_list (VArr t vs) vs l eq_refl Hs El).
  - destruct (rt_other_shape _ _ _ E) as [->| ->]; apply tr_plain; exact I.
Qed.

Lemma val_mod2_transfer c p v v' : transferred v v' -> val_mod2 c p v -> val_mod2 c p v'.
Proof.
  intros (W & M & Mn & I & A). destruct c; cbn [val_mod2 val_mod'].
  - destruct p; cbn [val_mod]; auto.
  - intros _. exact A.
  - intros [H _]. split; [apply Mn; exact H|exact I].
Qed.

(* ---------- the domain of the index theorem is unchanged ---------- *)
Lemma expr_roundtrip_val e e' : expr_roundtrip e = Some e' -> json_roundtrip (e_val e) = Some (e_val e').
Proof. unfold expr_roundtrip. destruct (json_roundtrip (e_val e)) as [v'|]; [|discriminate]. intros [= <-]. reflexivity. Qed.

Lemma option_map_inj {A B} (f : A -> B) (a b : option A) : (forall x y, f x = f y -> x = y) ->
  option_map f a = option_map f b -> a = b.
Proof. intros Hf. destruct a, b; cbn; intros H; try discriminate; [injection H as H; rewrite (Hf _ _ H)|]; reflexivity. Qed.

Lemma expr_dom_transfer fd e e' : expr_rel fd e' e -> json_safe_ix fd (e_op e) (e_val e) = true ->
  expr_sem fd e <> None -> expr_dom (fd_cont fd) e = true -> expr_dom (fd_cont fd) e' = true.
Proof.
  intros (Ert & Es & Ei & Eo) Hs Hden Hd. unfold json_safe_ix in Hs. apply andb_true_iff in Hs. destruct Hs as [Hs Hn].
  destruct (fd_cont fd) eqn:Hc; cbn [expr_dom] in *.
  - reflexivity.
  - unfold kw_nonempty in *. assert (E : strings_of (e_val e') = strings_of (e_val e)).
    { unfold expr_sem in Es, Hden. rewrite Hc, Eo in Es. rewrite Hc in Hden. destruct (e_op e); try congruence.
      apply (option_map_inj EKeywords); [intros x y [= ->]; reflexivity|exact Es]. }
    rewrite E. exact Hd.
  - unfold rng_expr_ok in *. rewrite Eo. destruct (e_op e) eqn:Ho.
    + unfold nil_in_ok. rewrite (rt_nil_like _ _ (expr_roundtrip_val e e' Ert)). rewrite Hn. reflexivity.
    + assert (E : range_spec OpGT (e_val e') = range_spec OpGT (e_val e)).
      { rewrite (expr_sem_range fd e' Hc), (expr_sem_range fd e Hc), Eo, Ho in Es by congruence.
        apply (option_map_inj (fun lr : Z * Z => ERange (fst lr) (snd lr))); [intros [a b] [c d] [= -> ->]; reflexivity|exact Es]. }
      rewrite E. exact Hd.
    + assert (E : range_spec OpLT (e_val e') = range_spec OpLT (e_val e)).
      { rewrite (expr_sem_range fd e' Hc), (expr_sem_range fd e Hc), Eo, Ho in Es by congruence.
        apply (option_map_inj (fun lr : Z * Z => ERange (fst lr) (snd lr))); [intros [a b] [c d] [= -> ->]; reflexivity|exact Es]. }
      rewrite E. exact Hd.
    + assert (E : range_spec OpBetween (e_val e') = range_spec OpBetween (e_val e)).
      { rewrite (expr_sem_range fd e' Hc), (expr_sem_range fd e Hc), Eo, Ho in Es by congruence.
        apply (option_map_inj (fun lr : Z * Z => ERange (fst lr) (snd lr))); [intros [a b] [c d] [= -> ->]; reflexivity|exact Es]. }
      rewrite E. exact Hd.
    + reflexivity.
Qed.

Lemma Forall2_In_l {A B} (R : A -> B -> Prop) l' l x' : Forall2 R l' l -> In x' l' -> exists x, In x l /\ R x' x.
Proof.
  induction 1 as [|a b l' l r _ IH]; intros H; [destruct H|]. destruct H as [<-|H].
  - exists b. split; [left; reflexivity|exact r].
  - destruct (IH H) as (x & Hx & Rx). exists x. split; [right; exact Hx|exact Rx].
Qed.

Section Transfer.
  Variables (parsers : fname -> parser_kind) (cfgl : list (fname * cont_kind)).
  Let fields := cfg_fields parsers cfgl.
  Let cfg := cfg_of cfgl.

  (* sizes and the skip condition *)
  Lemma exprs_incl_rel fd es' es : Forall2 (expr_rel fd) es' es -> existsb e_incl es' = existsb e_incl es.
  Proof. induction 1 as [|e' e es' es (_ & _ & I & _) _ IH]; cbn [existsb]; [reflexivity|]. rewrite I, IH. reflexivity. Qed.
  Lemma exprs_gt_rel fd es' es : Forall2 (expr_rel fd) es' es -> existsb is_gt es' = existsb is_gt es.
  Proof.
    induction 1 as [|e' e es' es (_ & _ & _ & O) _ IH]; cbn [existsb]; [reflexivity|]. unfold is_gt at 1 3. rewrite O, IH. reflexivity.
  Qed.
  Lemma calc_size_rel c' c : conj_rel fields parsers c' c -> calc_size c' = calc_size c.
  Proof.
    unfold calc_size. intros H. f_equal.
    induction H as [|[f' es'] [f es] c' c [Hf Hes] _ IH]; cbn [filter fst snd] in *; [reflexivity|].
    rewrite (exprs_incl_rel _ _ _ Hes). destruct (existsb e_incl es); cbn [length]; rewrite IH; reflexivity.
  Qed.
  Lemma sexprs_res_rel fd es' es : Forall2 (expr_rel fd) es' es -> sexprs_res fd es' = sexprs_res fd es.
  Proof.
    induction 1 as [|e' e es' es (_ & S & _ & O) _ IH]; cbn [sexprs_res]; [reflexivity|].
    assert (E : sexpr_res fd e' = sexpr_res fd e).
    { unfold sexpr_res, panics. rewrite S, O. reflexivity. }
    rewrite E, IH. reflexivity.
  Qed.
  Lemma sconj_res_rel c' c : conj_rel fields parsers c' c -> sconj_res fields parsers c' = sconj_res fields parsers c.
  Proof.
    induction 1 as [|[f' es'] [f es] c' c [Hf Hes] _ IH]; cbn [sconj_res fst snd] in *; [reflexivity|]. subst f'.
    rewrite (sexprs_res_rel _ _ _ Hes), IH. reflexivity.
  Qed.

  (* one document *)
  Lemma doc_ok_transfer d d' : doc_rel fields parsers d' d -> doc_safe_ix fields parsers d = true ->
    doc_ok parsers cfgl d -> doc_ok parsers cfgl d'.
  Proof.
    intros [_ Hcs] Hsafe [Hw Hd]. unfold doc_safe_ix in Hsafe. rewrite forallb_forall in Hsafe.
    assert (Hget : forall cj' f es' e', In cj' (d_conjs d') -> In (f, es') cj' -> In e' es' ->
              exists cj es e, In cj (d_conjs d) /\ conj_rel fields parsers cj' cj /\ In (f, es) cj /\ In e es /\
                              expr_rel (field_desc fields parsers f) e' e /\
                              json_safe_ix (field_desc fields parsers f) (e_op e) (e_val e) = true).
    { intros cj' f es' e' H1 H2 H3. destruct (Forall2_In_l _ _ _ _ Hcs H1) as (cj & Hcj & Rcj).
      destruct (Forall2_In_l _ _ _ _ Rcj H2) as ([f0 es] & Hfe & [Hf Res]). cbn [fst snd] in *. subst f0.
      destruct (Forall2_In_l _ _ _ _ Res H3) as (e & He & Re). exists cj, es, e. split; [exact Hcj|]. split; [exact Rcj|]. split; [exact Hfe|]. split; [exact He|]. split; [exact Re|].
      specialize (Hsafe cj Hcj). unfold conj_safe_ix in Hsafe. rewrite forallb_forall in Hsafe. specialize (Hsafe _ Hfe).
      cbn [fst snd] in Hsafe. rewrite forallb_forall in Hsafe. apply Hsafe. exact He. }
    split.
    - intros cj' H1 f es' e' H2 H3. destruct (Hget cj' f es' e' H1 H2 H3) as (cj & es & e & Hcj & _ & Hfe & He & Re & Hs).
      destruct (Hw cj Hcj f es e Hfe He) as [Wv Mv].
      unfold json_safe_ix in Hs. apply andb_true_iff in Hs. destruct Hs as [Hs _]. apply andb_true_iff in Hs. destruct Hs as [_ Hix].
      destruct Re as (Ert & _). pose proof (value_transfer _ _ Hix (expr_roundtrip_val _ _ Ert)) as Tr.
      split; [apply Tr|]. apply (val_mod2_transfer _ _ _ _ Tr Mv).
    - apply doc_dom_den_spec. intros cj' H1 Hden. apply conj_dom_spec. intros f es' e' H2 H3.
      destruct (Hget cj' f es' e' H1 H2 H3) as (cj & es & e & Hcj & Rcj & Hfe & He & Re & Hs).
      assert (Hden0 : conj_sem fields parsers cj <> None) by (rewrite <- (conj_sem_rel fields parsers cj' cj Rcj); exact Hden).
      pose proof (proj1 (doc_dom_den_spec parsers cfgl d) Hd cj Hcj Hden0) as Hdom.
      pose proof (proj1 (conj_dom_spec (cfg_of cfgl) cj) Hdom f es e Hfe He) as Hed.
      pose proof (proj1 (conj_sem_not_none fields parsers cj) Hden0 f es e Hfe He) as Hes.
      pose proof (expr_dom_transfer (field_desc fields parsers f) e e' Re Hs Hes) as T.
      unfold fields in T. rewrite field_desc_cont in T. apply T. exact Hed.
  Qed.
End Transfer.

(* ---------- the corollary ---------- *)
Lemma spec_out'_rel pol parsers cfgl d' d : doc_rel (cfg_fields parsers cfgl) parsers d' d ->
  spec_out' pol (cfg_fields parsers cfgl) parsers d' = spec_out' pol (cfg_fields parsers cfgl) parsers d.
Proof.
  intros [Hi Hc]. unfold spec_out', doc_valid. rewrite Hi, (JsonProof.Forall2_length _ _ _ Hc).
  assert (E : conjs_out pol (sconj_res (cfg_fields parsers cfgl) parsers) (d_conjs d') =
              conjs_out pol (sconj_res (cfg_fields parsers cfgl) parsers) (d_conjs d)).
  { induction Hc as [|c' c cs' cs R _ IH]; cbn [conjs_out]; [reflexivity|]. rewrite (sconj_res_rel parsers cfgl c' c R), IH. reflexivity. }
  rewrite E. destruct Hc; reflexivity.
Qed.

Theorem json_index_transparent kind pol thr parsers cfgl st0 ds st os ds' st' os' q :
  (* the original documents: the hypotheses of SpecBridgeHoldersPolicy.index_sat_hits_holders_policy *)
  config_fields (new_builder kind pol thr parsers) cfgl = Some st0 ->
  add_documents false st0 ds = (st, os) ->
  NoDup (map d_id ds) ->
  (forall d cj, In d ds -> In cj (d_conjs d) -> NoDup (map fst cj)) ->
  (forall d, In d ds -> doc_ok parsers cfgl d) ->
  sizes_ok ds ->
  skip_ok2 pol (cfg_fields parsers cfgl) parsers ds ->
  - two64 < thr ->
  NoDup (map fst q) ->
  asg_good' parsers cfgl q ->
  asg_dom_den parsers cfgl ds q ->
  (kind = IKGroups -> forall f v, In (f, v) q -> cfg_of cfgl f = CAc -> nil_slice_wf v) ->
  (* they lie in the safe domain, are encoded and decoded, and the decoded documents are added to a builder
     configured the same way *)
  forallb (doc_safe_ix (cfg_fields parsers cfgl) parsers) ds = true ->
  docs_roundtrip ds = Some ds' ->
  add_documents false st0 ds' = (st', os') ->
  (* same outcomes of AddDocument, and for the assignment q both indexes report the same (document, position, size) *)
  os' = os /\
  exists hits hits',
    retrieve_hits (build_index st) q = ROk hits /\
    retrieve_hits (build_index st') q = ROk hits' /\
    Permutation (map (fun h : hitrec => triple (snd h)) hits) (map (fun h : hitrec => triple (snd h)) hits') /\
    NoDup (map snd hits) /\ NoDup (map snd hits').
Proof.
  intros Hcfg Hadd Hnd Hcj Hok Hsz Hskip Hthr Hq Hqg Hqd Hqnil Hsafe Hrt Hadd'.
  assert (Hsafe0 : forallb (doc_safe (cfg_fields parsers cfgl) parsers) ds = true).
  { rewrite forallb_forall in *. intros d Hd. apply doc_safe_ix_safe. apply Hsafe. exact Hd. }
  destruct (docs_roundtrip_rel (cfg_fields parsers cfgl) parsers ds Hsafe0) as (ds0 & E0 & R). rewrite Hrt in E0. injection E0 as <-.
  assert (Hget : forall d', In d' ds' -> exists d, In d ds /\ doc_rel (cfg_fields parsers cfgl) parsers d' d) by (intros d' Hd'; apply (Forall2_In_l _ _ _ _ R Hd')).
  assert (Hids : map d_id ds' = map d_id ds).
  { clear - R. induction R as [|d' d ds' ds [Hi _] _ IH]; cbn [map]; [reflexivity|]. rewrite Hi, IH. reflexivity. }
  (* hypotheses for the decoded documents *)
  assert (Hnd' : NoDup (map d_id ds')) by (rewrite Hids; exact Hnd).
  assert (Hcj' : forall d cj, In d ds' -> In cj (d_conjs d) -> NoDup (map fst cj)).
  { intros d' cj' Hd' Hc'. destruct (Hget d' Hd') as (d & Hd & [_ Rc]).
    destruct (Forall2_In_l _ _ _ _ Rc Hc') as (cj & Hc & Rcj). rewrite (conj_rel_fields (cfg_fields parsers cfgl) parsers _ _ Rcj). apply (Hcj d cj Hd Hc). }
  assert (Hok' : forall d, In d ds' -> doc_ok parsers cfgl d).
  { intros d' Hd'. destruct (Hget d' Hd') as (d & Hd & Rd). apply (doc_ok_transfer parsers cfgl d d' Rd); [|apply Hok; exact Hd].
    rewrite forallb_forall in Hsafe. apply Hsafe. exact Hd. }
  assert (Hsz' : sizes_ok ds').
  { intros d' cj' Hd' Hc'. destruct (Hget d' Hd') as (d & Hd & [_ Rc]).
    destruct (Forall2_In_l _ _ _ _ Rc Hc') as (cj & Hc & Rcj). rewrite (calc_size_rel parsers cfgl _ _ Rcj). apply (Hsz d cj Hd Hc). }
  assert (Hskip' : skip_ok2 pol (cfg_fields parsers cfgl) parsers ds').
  { intros Hp d' cj' Hd' Hc'. destruct (Hget d' Hd') as (d & Hd & [_ Rc]).
    destruct (Forall2_In_l _ _ _ _ Rc Hc') as (cj & Hc & Rcj). rewrite (sconj_res_rel parsers cfgl _ _ Rcj). apply (Hskip Hp d cj Hd Hc). }
  assert (Hqd' : asg_dom_den parsers cfgl ds' q).
  { intros d' cj' f es' v Hd' Hc' Hden Hfe' Hfv. destruct (Hget d' Hd') as (d & Hd & [_ Rc]).
    destruct (Forall2_In_l _ _ _ _ Rc Hc') as (cj & Hc & Rcj).
    destruct (Forall2_In_l _ _ _ _ Rcj Hfe') as ([f0 es] & Hfe & [Hf Res]). cbn [fst snd] in *. subst f0.
    assert (Hden0 : conj_sem (cfg_fields parsers cfgl) parsers cj <> None) by (rewrite <- (conj_sem_rel (cfg_fields parsers cfgl) parsers cj' cj Rcj); exact Hden).
    pose proof (Hqd d cj f es v Hd Hc Hden0 Hfe Hfv) as A. unfold asg_dom in *. destruct (cfg_of cfgl f); auto.
    rewrite (exprs_gt_rel _ _ _ Res). exact A. }
  (* outcomes *)
  assert (Eos : os' = os).
  { rewrite (outcomes_holders_policy_exact kind pol thr parsers cfgl st0 ds' st' os' Hcfg Hadd' Hok' Hsz' (or_introl Hthr)).
    rewrite (outcomes_holders_policy_exact kind pol thr parsers cfgl st0 ds st os Hcfg Hadd Hok Hsz (or_introl Hthr)).
    clear - R. induction R as [|d' d ds' ds Rd _ IH]; cbn [map]; [reflexivity|]. rewrite (spec_out'_rel pol parsers cfgl d' d Rd), IH. reflexivity. }
  split; [exact Eos|].
  destruct (index_sat_hits_holders_policy kind pol thr parsers cfgl st0 ds st os q Hcfg Hadd Hnd Hcj Hok Hsz Hskip (or_introl Hthr) Hq Hqg Hqd Hqnil)
    as (hits & sh & E1 & S1 & P1 & N1).
  destruct (index_sat_hits_holders_policy kind pol thr parsers cfgl st0 ds' st' os' q Hcfg Hadd' Hnd' Hcj' Hok' Hsz' Hskip' (or_introl Hthr) Hq Hqg Hqd' Hqnil)
    as (hits' & sh' & E2 & S2 & P2 & N2).
  exists hits, hits'. split; [exact E1|]. split; [exact E2|]. split; [|split; assumption].
  pose proof (sat_hits_rel (cfg_fields parsers cfgl) parsers pol pl_docok ds' ds q (pl_docok_shallow) R) as Esat.
  rewrite Esat, S1 in S2. injection S2 as <-.
  eapply Permutation_trans; [exact P1|apply Permutation_sym; exact P2].
Qed.

(* ---------- non-vacuity: the theorem applies to the concrete documents of SpecBridgeHoldersPolicy's witness
   (pattern field 10, range field 20, default fields with the number parser; one document with a conjunction that
   does not denote, one refused, one with an id out of range, one empty) ---------- *)
Module JsonIndexWitness.
  Import HoldersSpecPolicyWitness.
  Example docs_safe : forallb (doc_safe_ix fields ps) docs = true. Proof. vm_compute. reflexivity. Qed.
  Definition decoded : list doc := match docs_roundtrip docs with Some l => l | None => [] end.
  Example docs_decoded : docs_roundtrip docs = Some decoded. Proof. vm_compute. reflexivity. Qed.
  Example decoded_differs : decoded <> docs. Proof. vm_compute. discriminate. Qed.

  Example applies kind pol st os st' os' :
    add_documents false (st0 kind pol) docs = (st, os) ->
    add_documents false (st0 kind pol) decoded = (st', os') ->
    os' = os /\
    exists hits hits',
      retrieve_hits (build_index st) qq = ROk hits /\ retrieve_hits (build_index st') qq = ROk hits' /\
      Permutation (map (fun h : hitrec => triple (snd h)) hits) (map (fun h : hitrec => triple (snd h)) hits') /\
      NoDup (map snd hits) /\ NoDup (map snd hits').
  Proof.
    intros H H'.
    exact (json_index_transparent kind pol 256 ps cfgl (st0 kind pol) docs st os decoded st' os' qq (h_cfg kind pol) H h_nd h_cj docs_ok
             h_sizes (h_skip pol) h_thr h_q qq_good h_dom (fun _ => h_nil) docs_safe docs_decoded H').
  Qed.

  (* and by computation: outcomes and reported triples of both indexes *)
  Definition run2 k pol :=
    let '(st, os) := add_documents false (st0 k pol) docs in
    let '(st', os') := add_documents false (st0 k pol) decoded in
    let tr := fun s => match retrieve_hits (build_index s) qq with
                       | ROk hits => Some (map (fun h : hitrec => triple (snd h)) hits) | _ => None end in
    (os, os', tr st, tr st').
  Example run2_skip_kgroups : run2 IKGroups PolSkip =
    ([AddOk; AddOk; AddPanic; AddErr], [AddOk; AddOk; AddPanic; AddErr],
     Some [(1, (0, 2)); (2, (1, 1)); (1, (2, 1))], Some [(1, (0, 2)); (2, (1, 1)); (1, (2, 1))]).
  Proof. vm_compute. reflexivity. Qed.
  Example run2_error_compact : let '(os, os', a, b) := run2 ICompact PolError in os = os' /\ a = b /\ a <> None /\ a <> Some [].
  Proof. vm_compute. repeat split; discriminate. Qed.
End JsonIndexWitness.

Print Assumptions value_transfer.
Print Assumptions doc_ok_transfer.
Print Assumptions json_index_transparent.
