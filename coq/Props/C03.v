(* C03  Roaring-bitmap index returns exactly the documents whose DNF is satisfied.  Statements only.
   Scanner fold (Model/Rr.v: the OR-first / AND-rest merge with the inited/ended flags and the early
   break): for EVERY order in which Go's map iteration presents the fields, a conjunction id is in
   the result iff it is in every field's result.  The executable model compared with the code on
   every run is Model/Roaring.v. *)
From Coq Require Import List NArith Bool Permutation.
From BE Require Import Model.Rr.
Import ListNotations.

Theorem C03_fold_is_intersection : forall pl pls x,
  mem x (res (retrieve fresh (pl :: pls))) = all_in x (pl :: pls).
Proof. exact retrieve_fresh. Qed.

Theorem C03_any_field_order : forall x l l', Permutation l l' -> all_in x l = all_in x l'.
Proof. exact all_in_perm. Qed.

(* with no configured field the fold returns the empty set whereas the intersection over no
   fields is everything: the premise `at least one field` is necessary (known finding F14) *)
Theorem C03_refuted_nofields : forall x, mem x (res (retrieve fresh [])) = false /\ all_in x [] = true.
Proof. intros x. split; reflexivity. Qed.

Print Assumptions C03_fold_is_intersection.
Print Assumptions C03_any_field_order.
Print Assumptions C03_refuted_nofields.
