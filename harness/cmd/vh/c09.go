package main

import (
	"encoding/json"
	"fmt"
	"math"
	"sort"
	"strconv"

	be "github.com/echoface/be_indexer"
	"github.com/echoface/be_indexer/parser"
)

// one value in every supported representation
func reprsOf(z int64) []TV {
	out := []TV{}
	s := strconv.FormatInt(z, 10)
	for _, t := range intTypes {
		tv := fitInt(t, z)
		// keep only representations that still denote z
		if (tv.I != nil && *tv.I == z) || (tv.U != nil && z >= 0 && *tv.U == uint64(z)) {
			out = append(out, tv, tvSlice("[]"+t, tv), tvList(tv))
		}
	}
	out = append(out, tvStr(s), tvJSON(s), tvSlice("[]string", tvStr(s)), tvSlice("[]json.Number", tvJSON(s)), tvList(tvStr(s), tvJSON(s)))
	if z > -(1<<53) && z < 1<<53 {
		f := float64(z)
		out = append(out, tvFloat("float64", f), tvSlice("[]float64", tvFloat("float64", f)), tvList(tvFloat("float64", f)))
		if float64(float32(f)) == f {
			out = append(out, tvFloat("float32", f), tvSlice("[]float32", tvFloat("float32", f)))
		}
		if z == 0 { // floats whose integer part is 0 but whose sign bit is set
			out = append(out, tvFloat("float64", -0.7), tvSlice("[]float64", tvFloat("float64", -0.25)), tvFloat("float64", math.Copysign(0, -1)),
				tvFloat("float32", -0.5), tvList(tvFloat("float64", -0.5)))
		}
		if z >= 0 {
			out = append(out, tvFloat("float64", f+0.7), tvSlice("[]float64", tvFloat("float64", f+0.25)))
		} else {
			out = append(out, tvFloat("float64", f-0.7), tvSlice("[]float64", tvFloat("float64", f-0.25)))
		}
	}
	return out
}

// representations of an unsigned value that does not fit int64
func reprsOfU(u uint64) []TV {
	s := strconv.FormatUint(u, 10)
	return []TV{tvUint("uint64", u), tvUint("uint", u), tvSlice("[]uint64", tvUint("uint64", u)), tvSlice("[]uint", tvUint("uint", u)),
		tvList(tvUint("uint64", u)), tvStr(s), tvJSON(s), tvSlice("[]string", tvStr(s)), tvList(tvJSON(s), tvUint("uint", u))}
}

// tvFromAny rebuilds a TV from a value decoded by encoding/json
func tvFromAny(v interface{}) TV {
	switch x := v.(type) {
	case nil:
		return tvNil()
	case float64:
		return tvFloat("float64", x)
	case string:
		return tvStr(x)
	case bool:
		return tvBool(x)
	case json.Number:
		return tvJSON(string(x))
	case []interface{}:
		l := make([]TV, len(x))
		for i, e := range x {
			l[i] = tvFromAny(e)
		}
		tv := tvList(l...)
		return tv
	case map[string]interface{}:
		return TV{T: "other:map"}
	}
	panic(fmt.Sprintf("tvFromAny: %T", v))
}

func eDocFromDocument(d *be.Document) eDoc {
	out := eDoc{ID: int64(d.ID)}
	for _, cj := range d.Cons {
		var ec eConj
		var fields []string
		for f := range cj.Expressions {
			fields = append(fields, string(f))
		}
		sort.Strings(fields)
		for _, f := range fields {
			var fn int
			fmt.Sscanf(f, "f%d", &fn)
			for _, e := range cj.Expressions[be.BEField(f)] {
				ec = append(ec, eExpr{F: fn, Inc: e.Incl, Op: int(e.Operator), V: tvFromAny(e.Value)})
			}
		}
		out.Cons = append(out.Cons, ec)
	}
	return out
}

func execJSON(raw json.RawMessage) (res execResult, err error) {
	var c eCase
	if err = json.Unmarshal(raw, &c); err != nil {
		return
	}
	// decode every document from its own JSON encoding
	dec := c
	dec.Docs = nil
	for i := range c.Docs {
		data, e := json.Marshal(c.Docs[i].build())
		if e != nil {
			return res, fmt.Errorf("marshal: %v", e)
		}
		var d2 be.Document
		if e := json.Unmarshal(data, &d2); e != nil {
			return res, fmt.Errorf("unmarshal: %v", e)
		}
		dec.Docs = append(dec.Docs, eDocFromDocument(&d2))
	}
	r1, _ := json.Marshal(c)
	r2, _ := json.Marshal(dec)
	a, e1 := execE2E(r1)
	b, e2 := execE2E(r2)
	if e1 != nil || e2 != nil {
		return res, fmt.Errorf("e2e: %v %v", e1, e2)
	}
	res.Coq = fmt.Sprintf("(%s,\n   %s)", a.Coq, b.Coq)
	res.Family = "J"
	res.Dist = "json/" + c.Kind
	res.NonTrivial = a.NonTrivial
	res.Summary = map[string]interface{}{"original": a.Summary, "decoded": b.Summary}
	return
}

const c09Rule = "parser level: every pair (representation at indexing time, representation at query time) of the values {0, +-1, +-3, 7, +-127, 255, +-2^31, +-2^53+-1, +-2^62} in every supported shape (all integer widths, numeric string, json.Number, float32/64 incl. fractional, scalar / typed slice / heterogeneous list) and pairs of different values; end to end: the same pairs through AddDocument/Retrieve on both posting-list indexes; JSON ingest: documents of every operator (in/not-in on default, pattern and range containers, >, <, between) marshalled, unmarshalled and rebuilt, answers compared with the original index on 10..16 queries, and the decoded values compared with the model of encoding/json (Model/Json.v); dedicated cases for float32 values around 2^24 and for empty / nil slices as expression values. roaring default container: include and exclude on one field of one conjunction against assigned lists in both orders and several representations; stock holders next to a registered holder whose factory reconfigures its own parser in place (no float conversion, dense allocator); Non-trivial (parser level) = both sides accepted; distinct = distinct input"

func init() {
	vals := []int64{0, 1, -1, 3, -3, 7, 127, -127, 255, 1 << 31, -(1 << 31), 1<<53 - 1, -(1<<53 - 1), 1 << 62, -(1 << 62)}
	props["C09"] = &propDef{
		header:    "From BE Require Import Corr.CheckC09.",
		headers:   map[string]string{"P": "From BE Require Import Corr.CheckParse.", "E": "From BE Require Import Corr.CheckE2E.", "J": "From BE Require Import Corr.CheckJson.", "R": "From BE Require Import Corr.CheckRr."},
		rule:      c09Rule,
		shardSize: 400,
		gen: func(tier string, r *Rand, add func(in interface{})) {
			// parser level cross product
			for vi, z := range vals {
				rs := reprsOf(z)
				for i, a := range rs {
					for j, b := range rs {
						if tier != "thorough" && (i*7+j*3+vi)%5 != 0 && !(i < 3 || j < 3) {
							continue // quick tier: a fifth of the square plus its first rows/columns
						}
						bb := b
						add(pIn{K: "match", V: a, V2: &bb})
					}
				}
				// a different value must not match
				other := reprsOf(vals[(vi+1)%len(vals)])
				for k := 0; k < 12; k++ {
					bb := pick(r, other)
					add(pIn{K: "match", V: pick(r, rs), V2: &bb})
				}
			}
			// unsigned values beyond int64, on both sides, against themselves and against their int64 reinterpretation
			for _, u := range []uint64{1 << 63, 1<<63 + 1, ^uint64(0), ^uint64(0) - 2} {
				rs := reprsOfU(u)
				wrapped := reprsOf(int64(u))
				for _, a := range rs {
					for _, b := range rs {
						bb := b
						add(pIn{K: "match", V: a, V2: &bb})
					}
					for _, b := range wrapped[:6] {
						bb := b
						add(pIn{K: "match", V: a, V2: &bb})
						aa := a
						add(pIn{K: "match", V: b, V2: &aa})
					}
				}
			}
			// strings that are not numbers, unicode
			for _, s := range []string{"abc", "", "007", "-0", "3.7", "héllo", "日本", "a b"} {
				for _, q := range []TV{tvStr(s), tvSlice("[]string", tvStr(s)), tvList(tvStr(s)), tvJSON(s), tvStr(s + "x")} {
					qq := q
					add(pIn{K: "match", V: tvStr(s), V2: &qq})
				}
			}
			// end to end
			for _, kind := range []string{"kgroups", "compact"} {
				for vi, z := range vals {
					rs := reprsOf(z)
					n := 6
					if tier == "thorough" {
						n = len(rs)
					}
					for k := 0; k < n; k++ {
						a := rs[(k*5+vi)%len(rs)]
						c := eCase{Kind: kind, Policy: "error", Docs: []eDoc{
							{ID: 1, Cons: []eConj{{{F: 0, Inc: true, V: a}}}},
							{ID: 2, Cons: []eConj{{{F: 0, Inc: false, V: a}}}}}}
						for _, b := range rs {
							c.Queries = append(c.Queries, eQuery{A: []eAssign{{F: 0, V: b}}})
						}
						c.Queries = append(c.Queries, eQuery{A: []eAssign{{F: 0, V: tvInt("int64", z+1)}}}, eQuery{})
						add(c)
					}
				}
			}
			// one value listed twice in different representations, FOLLOWED by other values: every listed value counts,
			// as include and as exclude, typed and untyped lists
			for _, kind := range []string{"kgroups", "compact"} {
				c := eCase{Kind: kind, Policy: "error", Docs: []eDoc{
					{ID: 1, Cons: []eConj{{{F: 0, Inc: true, V: tvList(tvInt("int", 7), tvStr("7"), tvInt("int", 8))}}}},
					{ID: 2, Cons: []eConj{{{F: 0, Inc: true, V: tvSlice("[]int", tvInt("int", 7), tvInt("int", 8), tvInt("int", 9))}}}},
					{ID: 3, Cons: []eConj{{{F: 0, Inc: false, V: tvList(tvFloat("float64", 7), tvJSON("7"), tvInt("int8", 9), tvStr("10"))}, {F: 1, Inc: true, V: tvStr("x")}}}},
					{ID: 4, Cons: []eConj{{{F: 0, Inc: true, V: tvSlice("[]int64", tvInt("int64", 5), tvInt("int64", 5), tvInt("int64", 6), tvInt("int64", 5), tvInt("int64", 11))}}}},
					{ID: 5, Cons: []eConj{{{F: 0, Inc: true, V: tvSlice("[]string", tvStr("a"), tvStr("a"), tvStr("b"))}}}},
				}}
				for _, v := range []TV{tvInt("int", 7), tvStr("8"), tvFloat("float64", 8), tvInt("int", 9), tvJSON("10"), tvInt("int", 6), tvUint("uint8", 11), tvStr("b"), tvInt("int", 5), tvStr("a")} {
					c.Queries = append(c.Queries, eQuery{A: []eAssign{{F: 0, V: v}}}, eQuery{A: []eAssign{{F: 0, V: v}, {F: 1, V: tvStr("x")}}})
				}
				add(c)
			}
			// the roaring index's default container: include and exclude on ONE field of one conjunction, assigned lists that
			// carry the same texts in either order and in several representations
			{
				c := rCase{Fields: []rField{{F: 0, Cont: "default"}, {F: 1, Cont: "default"}}}
				c.Docs = []eDoc{
					{ID: 1, Cons: []eConj{{{F: 0, Inc: true, V: tvSlice("[]int", tvInt("int", 7))}, {F: 0, Inc: false, V: tvSlice("[]string", tvStr("3"))}}}},
					{ID: 2, Cons: []eConj{{{F: 0, Inc: true, V: tvList(tvStr("3"), tvInt("int", 5))}}}},
					{ID: 3, Cons: []eConj{{{F: 0, Inc: false, V: tvFloat("float64", 7.5)}, {F: 1, Inc: true, V: tvStr("x")}, {F: 0, Inc: true, V: tvJSON("5")}}}},
				}
				for i, v := range []TV{
					tvSlice("[]int", tvInt("int", 3), tvInt("int", 7)), tvSlice("[]int", tvInt("int", 7), tvInt("int", 3)),
					tvSlice("[]string", tvStr("3"), tvStr("7")), tvList(tvStr("3"), tvInt("int", 7)), tvList(tvInt("int8", 7), tvStr("3")),
					tvSlice("[]float64", tvFloat("float64", 3.2), tvFloat("float64", 7.9)), tvSlice("[]float64", tvFloat("float64", 7.9), tvFloat("float64", 3.2)),
					tvInt("int", 7), tvStr("3"), tvSlice("[]int64", tvInt("int64", 7), tvInt("int64", 5)), tvSlice("[]int64", tvInt("int64", 5), tvInt("int64", 7)), tvList(tvJSON("5"), tvUint("uint16", 7), tvStr("3")),
				} {
					c.Ops = append(c.Ops, rOp{S: 0, Op: "reset"}, rOp{S: 0, Op: []string{"retrieve", "docs"}[i%2], A: []eAssign{{F: 0, V: v}, {F: 1, V: tvStr("x")}}}, rOp{S: 0, Op: "raw"})
				}
				add(c)
			}
			// a value the default container REFUSES (a bool, a struct) between good queries in several representations, on a
			// roaring index whose fields have catch-all conjunctions
			{
				c := rCase{Fields: []rField{{F: 0, Cont: "default"}, {F: 1, Cont: "default"}}}
				c.Docs = []eDoc{
					{ID: 1, Cons: []eConj{{{F: 0, Inc: true, V: tvSlice("[]int", tvInt("int", 1))}}}},
					{ID: 2, Cons: []eConj{{{F: 0, Inc: true, V: tvSlice("[]string", tvStr("2"))}}}},
					{ID: 3, Cons: []eConj{{{F: 1, Inc: true, V: tvStr("sh")}}}},
					{ID: 4, Cons: []eConj{{{F: 1, Inc: false, V: tvStr("sh")}, {F: 0, Inc: true, V: tvFloat("float64", 2.5)}}}},
				}
				good := [][]eAssign{{{F: 0, V: tvFloat("float64", 2.0)}}, {{F: 0, V: tvJSON("1")}, {F: 1, V: tvStr("sh")}}, {{F: 0, V: tvList(tvStr("2"), tvInt("int8", 1))}, {F: 1, V: tvStr("bj")}}}
				add(refusedQueryRounds(c, good, []eAssign{{F: 0, V: tvBool(true)}, {F: 1, V: tvStr("sh")}}, 6))
				add(refusedQueryRounds(c, good, []eAssign{{F: 1, V: TV{T: "other:struct"}}, {F: 0, V: tvInt("int", 2)}}, 4))
			}
			// stock holders next to a holder whose factory reconfigures its own parser in place: floats, float lists and
			// JSON-style untyped lists must keep matching by their integer part on the stock holders
			for _, kind := range []string{"kgroups", "compact"} {
				c := eCase{Kind: kind, Policy: "error", Docs: []eDoc{
					{ID: 10, Cons: []eConj{{{F: 0, Inc: true, V: tvList(tvFloat("float64", 1), tvFloat("float64", 7))}}}},
					{ID: 11, Cons: []eConj{{{F: 0, Inc: true, V: tvSlice("[]int", tvInt("int", 7))}, {F: 1, Inc: false, V: tvFloat("float64", 5)}}}},
					{ID: 12, Cons: []eConj{{{F: 1, Inc: true, V: tvSlice("[]float64", tvFloat("float64", -3.9), tvFloat("float64", 2.5))}}}},
					{ID: 13, Cons: []eConj{{{F: 0, Inc: true, V: tvStr("abc")}}}},
				}}
				for _, v := range []TV{tvFloat("float64", 7), tvFloat("float32", 7.5), tvSlice("[]float64", tvFloat("float64", -3.9)), tvList(tvFloat("float64", 1), tvFloat("float64", 7)), tvInt("int", 7), tvStr("7"), tvFloat("float64", 5), tvInt("int", -3), tvStr("abc"), tvStr("x")} {
					c.Queries = append(c.Queries, eQuery{A: []eAssign{{F: 0, V: v}}}, eQuery{A: []eAssign{{F: 1, V: v}}}, eQuery{A: []eAssign{{F: 0, V: tvInt("int", 7)}, {F: 1, V: v}}})
				}
				add(strictCase{eCase: c, Strict: true})
			}
			denseAllocatorCases(add) // value identity does not depend on which id allocator names the texts
			// JSON ingest
			nj := 60
			if tier == "thorough" {
				nj = 2500
			}
			for i := 0; i < nj; i++ {
				add(genJSONCase(r, i))
			}
			// dedicated JSON cases for the value classes whose meaning is known to change (findings F13, F15, F16, F17)
			// and for their safe neighbours
			for _, kind := range []string{"kgroups", "compact"} {
				one := func(id int64, f int, inc bool, v TV) eDoc {
					return eDoc{ID: id, Cons: []eConj{{{F: f, Inc: inc, V: v}}}}
				}
				qs := func(vals ...TV) []eQuery {
					var out []eQuery
					for _, v := range vals {
						out = append(out, eQuery{A: []eAssign{{F: 1, V: v}}}, eQuery{A: []eAssign{{F: 0, V: v}}})
					}
					return append(out, eQuery{})
				}
				cfg := map[int]string{2: "ext_range", 3: "ac_matcher"}
				// float32 below 2^24 (safe) / from 2^24 on (F16)
				add(jsonCase{eCase: eCase{Kind: kind, Policy: "error", Configs: cfg, Docs: []eDoc{one(1, 1, true, tvFloat("float32", 16777215)), one(2, 1, true, tvSlice("[]float32", tvFloat("float32", 2.5), tvFloat("float32", 7)))},
					Queries: qs(tvInt("int", 16777215), tvInt("int", 2), tvInt("int", 7))}, JSON: true})
				add(jsonCase{eCase: eCase{Kind: kind, Policy: "error", Configs: cfg, Docs: []eDoc{one(1, 1, true, tvFloat("float32", 1<<30)), one(2, 1, false, tvSlice("[]float32", tvFloat("float32", 16777217)))},
					Queries: qs(tvInt("int", 1<<30), tvInt("int", 1073741800), tvInt("int", 16777216), tvInt("int", 16777217))}, JSON: true})
				// empty slices (safe) / nil slices (F17) as expression values
				add(jsonCase{eCase: eCase{Kind: kind, Policy: "error", Configs: cfg, Docs: []eDoc{{ID: 1, Cons: []eConj{{{F: 0, Inc: true, V: tvSlice("[]int", tvInt("int", 7))}, {F: 1, Inc: false, V: tvSlice("[]string")}}}}},
					Queries: qs(tvInt("int", 7), tvStr("a"))}, JSON: true})
				add(jsonCase{eCase: eCase{Kind: kind, Policy: "error", Configs: cfg, Docs: []eDoc{{ID: 1, Cons: []eConj{{{F: 0, Inc: true, V: tvSlice("[]int", tvInt("int", 7))}, {F: 1, Inc: false, V: TV{T: "[]string", Nil: true}}}}}},
					Queries: qs(tvInt("int", 7), tvStr("a"))}, JSON: true})
				// EMPTY lists as INCLUDE values: an include that lists nothing can never be satisfied, alone (the document
				// matches nothing) or next to a satisfiable include, before and after the round trip
				add(jsonCase{eCase: eCase{Kind: kind, Policy: "error", Configs: cfg, Docs: []eDoc{
					{ID: 1, Cons: []eConj{{{F: 0, Inc: true, V: tvSlice("[]int")}}}},
					{ID: 2, Cons: []eConj{{{F: 0, Inc: true, V: tvSlice("[]int")}, {F: 1, Inc: true, V: tvSlice("[]string", tvStr("a"))}}}},
					{ID: 3, Cons: []eConj{{{F: 1, Inc: true, V: tvSlice("[]string")}, {F: 0, Inc: true, V: tvSlice("[]int", tvInt("int", 7))}}}},
					{ID: 4, Cons: []eConj{{{F: 0, Inc: true, V: tvSlice("[]int", tvInt("int", 7))}}, {{F: 1, Inc: true, V: tvList()}}}},
					{ID: 5, Cons: []eConj{{{F: 3, Inc: true, V: tvSlice("[]string")}, {F: 1, Inc: true, V: tvSlice("[]string", tvStr("a"))}}}}},
					Queries: qs(tvInt("int", 7), tvStr("a"))}, JSON: true})
			}
		},
		exec: func(raw json.RawMessage) (execResult, error) {
			var probe struct {
				K      string          `json:"k"`
				JSON   bool            `json:"json"`
				Fields json.RawMessage `json:"fields"`
				Strict bool            `json:"strict"`
			}
			json.Unmarshal(raw, &probe)
			switch {
			case probe.Strict:
				// another index of this process uses a holder whose factory tightens ITS parser in place through the exported
				// fields (no float conversion, a dense allocator); the case itself runs on stock holders afterwards
				be.RegisterEntriesHolder("verif_strict", func() be.EntriesHolder {
					h := be.NewDefaultEntriesHolder()
					if p, ok := h.Parser.(*parser.CommonStrParser); ok {
						p.EnableFloat2Int = false
						p.StrIDAllocator = parser.NewIDAllocatorImpl()
					}
					return h
				})
				sb := be.NewIndexerBuilder()
				sb.ConfigField("strict_field", be.FieldOption{Container: "verif_strict"})
				sd := be.NewDocument(1)
				sd.AddConjunction(be.NewConjunction().In("strict_field", []int{1, 2}).In("f0", 3), be.NewConjunction().In("strict_field", "x"))
				safeCall(func() { sb.AddDocument(sd) })
				var sidx be.BEIndex
				safeCall(func() { sidx = sb.BuildIndex() })
				res, err := execE2E(raw)
				if sidx != nil {
					safeCall(func() { sidx.Retrieve(be.Assignments{"strict_field": 1, "f0": 3}) })
				}
				res.Family = "E"
				return res, err
			case probe.Fields != nil:
				res, err := execRr(raw)
				res.Family = "R"
				return res, err
			case probe.K != "":
				return execParse(raw)
			case probe.JSON:
				return execJSON(raw)
			}
			res, err := execE2E(raw)
			res.Family = "E"
			return res, err
		},
	}
}

type strictCase struct {
	eCase
	Strict bool `json:"strict"`
}

type jsonCase struct {
	eCase
	JSON bool `json:"json"`
}

func genJSONCase(r *Rand, i int) jsonCase {
	kind := "kgroups"
	if i%2 == 1 {
		kind = "compact"
	}
	c := eCase{Kind: kind, Policy: "error", Configs: map[int]string{2: "ext_range", 3: "ac_matcher"}}
	ivals := []int64{-5, -1, 0, 1, 2, 3, 7, 100, 1000, 5000, 1 << 40, -(1 << 40)}
	if r.Chance(10) {
		ivals = append(ivals, 1<<53+1, -(1<<53 + 1), 1<<62+1)
	}
	words := []string{"red", "blue", "re", "x y", "日本"}
	nd := 1 + r.Intn(5)
	for d := 0; d < nd; d++ {
		doc := eDoc{ID: int64(d+1) * int64(1-2*r.Intn(2))}
		for k := 1 + r.Intn(3); k > 0; k-- {
			var cj eConj
			for e := 1 + r.Intn(3); e > 0; e-- {
				inc := r.Chance(70)
				switch r.Intn(7) {
				case 0: // default container, ints in some representation
					cj = append(cj, eExpr{F: 0, Inc: inc, V: intsShape(r, []int64{pick(r, ivals), pick(r, ivals)})})
				case 1: // default container, strings / floats / json.Number literals that are not plain integers
					if r.Chance(12) {
						cj = append(cj, eExpr{F: 1, Inc: inc, V: pick(r, []TV{tvJSON("2.7"), tvSlice("[]json.Number", tvJSON("1e3"), tvJSON("7")), tvList(tvJSON("1.0"), tvStr("red")), tvJSON("-0"), tvJSON("100.5")})})
					} else if r.Chance(8) { // float32 values: exact below 2^24, re-read as another float64 from 2^24 on
						cj = append(cj, eExpr{F: 1, Inc: inc, V: pick(r, []TV{tvFloat("float32", 1<<30), tvSlice("[]float32", tvFloat("float32", 16777217), tvFloat("float32", 3)),
							tvFloat("float32", 16777215), tvFloat("float32", 2.5), tvList(tvFloat("float32", 1<<24), tvInt("int", 7))})})
					} else if r.Chance(8) { // nil / empty slices as expression values
						// (a value the ORIGINAL builder refuses for its Go type, e.g. []int{} on the pattern field, is not a document
						// of the property: only string-typed and untyped lists go to field 3)
						f := pick(r, []int{0, 1, 3})
						vs := []TV{{T: "[]string", Nil: true}, {T: "[]interface{}", Nil: true}, tvSlice("[]string")}
						if f != 3 {
							vs = append(vs, TV{T: "[]int", Nil: true}, tvSlice("[]int"))
						}
						cj = append(cj, eExpr{F: f, Inc: inc, V: pick(r, vs)})
					} else if r.Bool() {
						cj = append(cj, eExpr{F: 1, Inc: inc, V: tvSlice("[]string", tvStr(pick(r, words)))})
					} else {
						cj = append(cj, eExpr{F: 1, Inc: inc, V: tvSlice("[]float64", tvFloat("float64", float64(pick(r, ivals))+0.5))})
					}
				case 2: // range container: in
					cj = append(cj, eExpr{F: 2, Inc: inc, V: tvSlice("[]int64", tvInt("int64", pick(r, ivals)), tvInt("int64", pick(r, ivals)))})
				case 3: // >
					cj = append(cj, eExpr{F: 2, Inc: inc, Op: 1, V: tvInt("int64", pick(r, ivals))})
				case 4: // <
					cj = append(cj, eExpr{F: 2, Inc: inc, Op: 2, V: tvInt("int64", pick(r, ivals))})
				case 5: // between
					a, b := pick(r, ivals), pick(r, ivals)
					if a > b {
						a, b = b, a
					}
					if a == b {
						b = a + 10
					}
					cj = append(cj, eExpr{F: 2, Inc: inc, Op: 3, V: tvSlice("[]int64", tvInt("int64", a), tvInt("int64", b))})
				case 6: // pattern container
					cj = append(cj, eExpr{F: 3, Inc: inc, V: tvSlice("[]string", tvStr(pick(r, words)), tvStr(pick(r, words)))})
				}
			}
			doc.Cons = append(doc.Cons, cj)
		}
		c.Docs = append(c.Docs, doc)
	}
	for q := 10 + r.Intn(7); q > 0; q-- {
		var a []eAssign
		if r.Chance(70) {
			a = append(a, eAssign{F: 0, V: intsShape(r, []int64{pick(r, ivals)})})
		}
		if r.Chance(50) {
			a = append(a, eAssign{F: 1, V: pick(r, []TV{tvStr(pick(r, words)), tvInt("int", pick(r, ivals)), tvFloat("float64", float64(pick(r, ivals))+0.5),
				tvStr("2.7"), tvInt("int", 2), tvStr("1e3"), tvJSON("1.0"), tvFloat("float64", 100.5), tvInt("int", 1<<30), tvInt("int", 1073741800), tvInt("int", 16777216)})})
		}
		if r.Chance(70) {
			a = append(a, eAssign{F: 2, V: tvInt("int64", pick(r, ivals)+int64(r.Intn(3)-1))})
		}
		if r.Chance(50) {
			a = append(a, eAssign{F: 3, V: tvStr(pick(r, words) + " " + pick(r, words))})
		}
		c.Queries = append(c.Queries, eQuery{A: a})
	}
	return jsonCase{eCase: c, JSON: true}
}
