(* Roaring index cases: specification leg.  One case = configured fields, AddDocument calls with
   outcomes, and a sequence of scanner operations (over several scanners sharing the index) with
   what the real code returned. *)
From Coq Require Import List NArith ZArith Bool.
From BE Require Export Model.GoTypes Model.GoVal Model.Parsers Model.Index Model.Roaring.
From BE Require Export Corr.SpecE2E.
From BE Require Import Model.Spec Corr.Common.
Import ListNotations.
Local Open Scope Z_scope.

Inductive rimpl :=
| RIDocs (l : list N)          (* Retrieve: []uint64 *)
| RIDocSet (l : list Z)        (* RetrieveDocs: keys of the map *)
| RIRaw (l : list N)           (* GetRawResult().ToArray() *)
| RIErr | RIPanic | RIUnit.
Inductive rop :=
| ROHint (hs : list Z) | RORetrieve (q : assignment) | RORetrieveDocs (q : assignment) | ROReset | RORaw.

Record rcase := {
  rk_fields : list (fname * (rcont_kind * parser_kind));
  rk_docs : list (doc * iadd);
  rk_ops : list (N * rop * rimpl)
}.

(* n documents 0, 1, 2, ... each `field 0 in [1]`, accepted: large cases name them instead of spelling them out *)
Definition bulk_docs (n : N) : list (doc * iadd) :=
  map (fun i => (Build_doc (Z.of_nat i) [[(0%N, [Build_expr true OpEQ (VSlice TSint false [VInt KI 1%Z])])]], IAddOk))
      (seq 0 (N.to_nat n)).

Definition rfields (c : rcase) : list fdesc :=
  map (fun f => {| fd_name := fst f; fd_cont := match fst (snd f) with RDefault => CDefault | RAc => CAc end;
                   fd_parser := snd (snd f) |}) (rk_fields c).
Definition rparsers (c : rcase) (f : fname) : parser_kind :=
  match alookup N.eqb f (rk_fields c) with Some (_, p) => p | None => PCommon end.

Definition rr_id (doc idx : Z) : N := Z.to_N ((doc * 256 + idx) mod 18446744073709551616).
Definition u64_of (d : Z) : N := Z.to_N (d mod 18446744073709551616).

Definition rr_docok (d : doc) : bool :=
  negb (match d_conjs d with [] => true | _ => false end) && (Z.of_nat (length (d_conjs d)) <=? 256) &&
  (Z.abs (d_id d) <=? 36028797018963967).

Definition all_fields_known (c : rcase) (d : doc) : bool :=
  forallb (fun cj : conj => forallb (fun fe => match alookup N.eqb (fst fe) (rk_fields c) with Some _ => true | None => false end) cj) (d_conjs d).

Definition expected_radd (c : rcase) (d : doc) : iadd :=
  if negb (rr_docok d) then IAddErr
  else if negb (all_fields_known c d) then IAddErr
  else if forallb (fun cj => match conj_sem (rfields c) (rparsers c) cj with Some _ => true | None => false end) (d_conjs d)
       then IAddOk else IAddErr.

Definition is_add_ok (a : iadd) : bool := match a with IAddOk => true | _ => false end.
(* a refusal that happens before anything of the document is encoded leaves no partial entries: no conjunction, an id
   outside the range (the first conjunction id cannot be built), an unconfigured field in the FIRST conjunction (checked
   before that conjunction is encoded) *)
Definition refused_clean (c : rcase) (d : doc) : bool :=
  match d_conjs d with
  | [] => true
  | cj :: rest => (36028797018963967 <? Z.abs (d_id d)) ||
               negb (forallb (fun fe : fname * list expr => match alookup N.eqb (fst fe) (rk_fields c) with Some _ => true | None => false end) cj) ||
               (* a document of ONE conjunction with ONE expression: if it was refused, that expression was, and nothing of
                  it went into its field's container (the other fields may hold a catch-all bit no retrieval can reach) *)
               match rest, cj with
               | [], [(_, [_])] => true
               | _, _ => false
               end
  end.
Definition all_accepted (c : rcase) : bool :=
  forallb (fun da => is_add_ok (snd da) || refused_clean c (fst da)) (rk_docs c).

Definition q_supported_rr (c : rcase) (q : assignment) : bool :=
  forallb (fun fv => match alookup N.eqb (fst fv) (rk_fields c) with
                     | None => true
                     | Some _ => match assign_sem (field_desc (rfields c) (rparsers c) (fst fv)) (snd fv) with
                                 | Some _ => true | None => false end
                     end) q.

(* the satisfied conjunctions as (doc, position); None = unspecified *)
Definition spec_pairs (c : rcase) (q : assignment) : option (list (Z * Z)) :=
  if negb (q_supported_rr c q) then None else
  option_map (map (fun h => (fst h, fst (snd h))))
             (sat_hits (rfields c) (rparsers c) PolError (fun d => rr_docok d && all_fields_known c d) (map fst (rk_docs c)) q).

Definition raw_of (ps : list (Z * Z)) : list N := setN (map (fun p => rr_id (fst p) (snd p)) ps).
Definition docs_of (ps : list (Z * Z)) : list N := setN (map (fun p => u64_of (fst p)) ps).

(* abstract scanner state of the specification *)
Inductive astate :=
| AFresh
| AHinted (hs : list Z)
| ADone (ps : option (list (Z * Z)))     (* after one retrieval from fresh/hinted: the satisfied pairs, when specified *)
| AHintedDirty (hs : list Z)             (* a hinted scanner after a REFUSED retrieval, not Reset yet: what it holds depends on Go's map
                                            order, but the hints still restrict -- whatever it returns lies inside them *)
| AUnspec.

Definition restrict (hs : list Z) (ps : list (Z * Z)) : list (Z * Z) :=
  filter (fun p => existsb (Z.eqb (fst p)) hs) ps.

(* one operation: (ok, signature, next state) *)
Definition spec_step (c : rcase) (st : astate) (op : rop) (r : rimpl) : bool * N * astate :=
  match op with
  | ROReset => (match r with RIUnit => true | _ => false end, 26%N, AFresh)
  | ROHint hs =>
    match st with
    | AFresh => (match r with RIUnit => true | _ => false end, 22%N, AHinted hs)
    | _ => (true, 0%N, AUnspec)
    end
  | RORaw =>
    match st, r with
    | _, RIPanic => (false, 13%N, AUnspec)
    | AFresh, RIRaw l => (match l with [] => true | _ => false end, 25%N, st)
    | ADone (Some ps), RIRaw l => (eqb_list N.eqb l (raw_of ps), 25%N, st)
    | _, _ => (true, 0%N, st)
    end
  | RORetrieve q | RORetrieveDocs q =>
    let expect := match st with
                  | AFresh => spec_pairs c q
                  | AHinted hs => option_map (restrict hs) (spec_pairs c q)
                  | _ => None end in
    let sig := match st with AHinted _ => 24%N | _ => (match rk_fields c with [] => 21%N | _ => 23%N end) end in
    let next := match st with AFresh | AHinted _ => ADone expect | _ => AUnspec end in
    let inside hs (d : N) := existsb (fun h => N.eqb (u64_of h) d) hs in
    match st, r with
    | AHintedDirty hs, RIDocs l => (forallb (inside hs) l, 24%N, st)
    | AHintedDirty hs, RIDocSet l => (forallb (fun z => existsb (Z.eqb z) hs) l, 24%N, st)
    | AHintedDirty hs, RIErr => (true, 0%N, st)
    | _, _ =>
    match r with
    | RIPanic => (false, 13%N, AUnspec)
    | RIErr => (match st with AFresh | AHinted _ => negb (q_supported_rr c q) | _ => true end, 14%N,
                match st with AHinted hs => AHintedDirty hs | _ => AUnspec end)
    | RIDocs l => (match expect with Some ps => eqb_list N.eqb l (docs_of ps) | None => true end, sig, next)
    | RIDocSet l => (match expect with Some ps => eqb_list Z.eqb (setZ l) (setZ (map fst ps)) && nodupZ l | None => true end, sig, next)
    | _ => (false, 27%N, AUnspec)
    end
    end
  end.

Fixpoint get_st (i : N) (sts : list (N * astate)) : astate :=
  match sts with [] => AFresh | (j, s) :: r => if N.eqb i j then s else get_st i r end.
Definition set_st (i : N) (s : astate) (sts : list (N * astate)) := aupdate N.eqb i (fun _ => s) sts.

Fixpoint spec_ops (c : rcase) (sts : list (N * astate)) (ops : list (N * rop * rimpl)) : bool * N :=
  match ops with
  | [] => (true, 0%N)
  | (i, op, r) :: rest =>
    let '(ok, sig, st') := spec_step c (get_st i sts) op r in
    if ok then spec_ops c (set_st i st' sts) rest else (false, sig)
  end.

Definition rr_distinct_ids (c : rcase) : bool := nodupZ (map (fun da => d_id (fst da)) (rk_docs c)).

Definition spec_verdict (c : rcase) : bool * bool * N :=
  let adds_ok := forallb (fun da => iadd_eqb (snd da) (expected_radd c (fst da))) (rk_docs c) in
  let dom := rr_distinct_ids c && all_accepted c in
  if negb adds_ok then (false, dom, 20%N)
  else if negb dom then (true, false, 0%N)    (* rejected documents may leave partial entries: outside C03's domain *)
  else let '(ok, sig) := spec_ops c [] (rk_ops c) in (ok, true, sig).

Definition spec_only (c : rcase) : verdict := let '(s, d, g) := spec_verdict c in mk_verdict true s d g.
Definition run (cs : list rcase) := check_all spec_only cs.
