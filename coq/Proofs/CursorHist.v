(* C12: sequences of SkipTo, field cursors, cursor sort. *)
From Coq Require Import List NArith Bool Lia Arith Permutation Sorting.Sorted.
From BE Require Gen.IdsGen.
From BE Require Import Model.Scan Proofs.ScanProof Model.Cursor Proofs.CursorProof Proofs.Refine.
Import ListNotations.
Local Open Scope N_scope.

(* the model's sentinel is the code's *)
Lemma nullentry_is_generated : Cursor.NULLENTRY = IdsGen.NULLENTRY.
Proof. reflexivity. Qed.

Definition hd_eid (r : list N) : N := match r with [] => NULLENTRY | x :: _ => x end.

(* run a sequence of SkipTo calls; outputs = the returned entries *)
Fixpoint run_skips (l : list N) (c : cursor) (ts : list N) : option (cursor * list N) :=
  match ts with
  | [] => Some (c, [])
  | t :: ts' =>
    match skip_to l c t with
    | None => None
    | Some c' => match run_skips l c' ts' with
                 | None => None
                 | Some (c'', outs) => Some (c'', c_eid c' :: outs)
                 end
    end
  end.

(* value-level specification: drop the entries below the target from what remains *)
Fixpoint spec_skips (r : list N) (ts : list N) : list N :=
  match ts with
  | [] => []
  | t :: ts' => let r' := drop_lt t r in hd_eid r' :: spec_skips r' ts'
  end.

Lemma wf_eid_hd l c : WF l c -> c_eid c = hd_eid (remaining l c).
Proof.
  intros [Hp He]. rewrite He. unfold remaining, hd_eid.
  destruct (Nat.eq_dec (c_pos c) (length l)) as [E|E].
  - rewrite E, skipn_all. apply ent_oob. lia.
  - rewrite skipn_cons_ent by lia. reflexivity.
Qed.

Theorem skip_history l : sortedN l -> forall ts c, Forall (fun t => t <= NULLENTRY) ts -> WF l c ->
  exists c' outs, run_skips l c ts = Some (c', outs) /\ WF l c' /\ (c_pos c <= c_pos c')%nat /\
                  outs = spec_skips (remaining l c) ts.
Proof.
  intros Hs ts. induction ts as [|t ts IH]; intros c Hts Hwf; cbn [run_skips spec_skips].
  - exists c, []. repeat split; auto; try lia; try (destruct Hwf; assumption).
  - inversion Hts as [|? ? Ht Hts']; subst.
    destruct (skip_to_spec l t Hs Ht c Hwf) as (c1 & Hsk & Hwf1 & Hpos & _).
    destruct (skip_to_remaining l c t Hs Ht Hwf) as (c1' & Hsk' & _ & Hrem).
    rewrite Hsk in Hsk'. inversion Hsk'; subst c1'. clear Hsk'.
    destruct (IH c1 Hts' Hwf1) as (c2 & outs & Hrun & Hwf2 & Hpos2 & Houts).
    rewrite Hsk, Hrun. exists c2, (c_eid c1 :: outs).
    split; [reflexivity|]. split; [exact Hwf2|]. split; [lia|].
    rewrite Houts, Hrem. f_equal. rewrite (wf_eid_hd l c1 Hwf1), Hrem. reflexivity.
Qed.

(* what drop_lt/hd_eid mean on a sorted remainder: the least entry >= t, else the sentinel *)
Lemma drop_lt_spec t r : (forall i j, (i <= j < length r)%nat -> ent r i <= ent r j) ->
  (forall x, In x (drop_lt t r) <-> In x r /\ t <= x) /\
  (forall x, In x r -> t <= x -> hd_eid (drop_lt t r) <= x) /\
  ((forall x, In x r -> x < t) -> hd_eid (drop_lt t r) = NULLENTRY) /\
  ((exists x, In x r /\ t <= x) -> In (hd_eid (drop_lt t r)) r /\ t <= hd_eid (drop_lt t r)).
Proof.
  intros Hs. rewrite (drop_lt_filter t r Hs).
  assert (Hin : forall x, In x (filter (fun x => t <=? x) r) <-> In x r /\ t <= x).
  { intros x. rewrite filter_In, N.leb_le. tauto. }
  split; [exact Hin|].
  assert (Hmin : forall x, In x r -> t <= x -> hd_eid (filter (fun x => t <=? x) r) <= x).
  { clear Hin. induction r as [|a r IH]; intros x Hx Hge; [inversion Hx|].
    cbn [filter]. destruct (N.leb_spec t a) as [Ha|Ha].
    - cbn [hd_eid]. destruct Hx as [<-|Hx]; [lia|].
      destruct (In_nth _ _ NULLENTRY Hx) as (j & Hj & Hnth).
      specialize (Hs 0%nat (S j)). unfold ent in Hs. cbn [nth length] in Hs. rewrite Hnth in Hs. apply Hs. lia.
    - destruct Hx as [<-|Hx]; [lia|]. apply IH; auto.
      intros i j Hij. specialize (Hs (S i) (S j)). unfold ent in *. cbn [nth length] in Hs. apply Hs. lia. }
  split; [exact Hmin|]. split.
  - intros Hall. destruct (filter (fun x => t <=? x) r) as [|y f] eqn:E; [reflexivity|].
    assert (Hy : In y (y :: f)) by (left; auto).
    apply Hin in Hy. destruct Hy as [Hy1 Hy2]. apply Hall in Hy1. lia.
  - intros (x & Hx & Hge). destruct (filter (fun x => t <=? x) r) as [|y f] eqn:E.
    + assert (In x []) by (apply Hin; auto). contradiction.
    + cbn [hd_eid]. apply Hin. left; auto.
Qed.

(* ---- field cursors ---- *)
Definition eids_le_null (fc : fcur) : Prop := Forall (fun m => c_eid (snd m) <= NULLENTRY) fc.

Lemma fc_skip_loop_spec id : forall fc nm,
  fc_skip_loop id fc nm =
  match fc_skip id fc with
  | None => None
  | Some g => Some (g, fold_left (fun acc m => if c_eid (snd m) <=? acc then c_eid (snd m) else acc) g nm)
  end.
Proof.
  induction fc as [|[l c] rest IH]; intros nm; cbn [fc_skip_loop fc_skip fold_left]; auto.
  destruct (skip_to l c id) as [c'|]; auto.
  rewrite IH. destruct (fc_skip id rest) as [g|]; auto.
Qed.

Lemma fc_cur_le_null g : fc_cur g <= NULLENTRY.
Proof. induction g as [|m g IH]; cbn [fc_cur fold_right]; [lia|]. unfold fc_cur in IH. lia. Qed.

Lemma fold_min_is_min : forall (g : fcur) nm,
  fold_left (fun acc m => if c_eid (snd m) <=? acc then c_eid (snd m) else acc) g nm = N.min nm (fc_cur g) \/
  (NULLENTRY < nm).
Proof.
  induction g as [|m g IH]; intros nm; cbn [fold_left fc_cur fold_right].
  - destruct (N.le_gt_cases nm NULLENTRY); [left; lia|right; lia].
  - destruct (N.le_gt_cases nm NULLENTRY) as [Hn|Hn]; [left|right; lia].
    pose proof (fc_cur_le_null g) as Hg. unfold fc_cur in *.
    destruct (IH (if c_eid (snd m) <=? nm then c_eid (snd m) else nm)) as [E|E].
    + rewrite E. destruct (N.leb_spec (c_eid (snd m)) nm); lia.
    + destruct (N.leb_spec (c_eid (snd m)) nm); lia.
Qed.

(* FieldCursor.SkipTo: every member skips, and the exposed entry is the minimum of the members' entries *)
Theorem fcursor_skip_min f id f' m : fcursor_skip_to f id = Some (f', m) ->
  fc_skip id (fc_group f) = Some (fc_group f') /\ fc_current f' = m /\ m = fc_cur (fc_group f').
Proof.
  unfold fcursor_skip_to. rewrite fc_skip_loop_spec. destruct (fc_skip id (fc_group f)) as [g|]; [|discriminate].
  intros H. inversion H; subst; clear H. cbn [fc_group fc_current]. repeat split.
  destruct (fold_min_is_min g NULLENTRY) as [E|E]; [|lia]. rewrite E. pose proof (fc_cur_le_null g). lia.
Qed.

Lemma new_fc_loop_some : forall g e, new_fc_loop g (Some e) = Some (N.min e (fold_right (fun m acc => N.min (c_eid (snd m)) acc) e g)).
Proof.
  induction g as [|[l c] g IH]; intros e; cbn [new_fc_loop fold_right snd]; [f_equal; lia|].
  destruct (N.ltb_spec (c_eid c) e) as [H|H]; rewrite IH; f_equal.
  - assert (G : forall a b, a <= b -> fold_right (fun m acc => N.min (c_eid (snd m)) acc) a g <= fold_right (fun m acc => N.min (c_eid (snd m)) acc) b g).
    { clear. induction g as [|m g IH]; intros a b Hab; cbn [fold_right]; auto. specialize (IH a b Hab). lia. }
    assert (G2 : forall a, fold_right (fun m acc => N.min (c_eid (snd m)) acc) a g <= a).
    { clear. induction g as [|m g IH]; intros a; cbn [fold_right]; [lia|]. specialize (IH a). lia. }
    assert (G3 : forall a b, N.min a (fold_right (fun m acc => N.min (c_eid (snd m)) acc) b g) = N.min a (N.min b (fold_right (fun m acc => N.min (c_eid (snd m)) acc) a g)) \/ True) by (right; auto).
    clear G3.
    assert (G4 : forall a b, N.min a (fold_right (fun m acc => N.min (c_eid (snd m)) acc) b g) <= fold_right (fun m acc => N.min (c_eid (snd m)) acc) a g).
    { clear. induction g as [|m g IH]; intros a b; cbn [fold_right]; [lia|]. specialize (IH a b). lia. }
    pose proof (G4 (c_eid c) e). pose proof (G4 e (c_eid c)). pose proof (G2 e). pose proof (G2 (c_eid c)). lia.
  - assert (G2 : forall a, fold_right (fun m acc => N.min (c_eid (snd m)) acc) a g <= a).
    { clear. induction g as [|m g IH]; intros a; cbn [fold_right]; [lia|]. specialize (IH a). lia. }
    pose proof (G2 e). lia.
Qed.

(* minimum with two different bases agree below the smaller base *)
Lemma fold_min_base (g : fcur) : forall a b, a <= b ->
  fold_right (fun m acc => N.min (c_eid (snd m)) acc) a g = N.min a (fold_right (fun m acc => N.min (c_eid (snd m)) acc) b g).
Proof. induction g as [|m g IH]; intros a b Hab; cbn [fold_right]; [lia|]. rewrite (IH a b Hab). lia. Qed.

Theorem new_fcursor_min ls : ls <> [] -> Forall (fun l => ent l 0 <= NULLENTRY) ls ->
  fc_current (new_fcursor ls) = fc_cur (fc_group (new_fcursor ls)).
Proof.
  intros Hne Hall. unfold new_fcursor. cbn [fc_group fc_current].
  destruct ls as [|l ls]; [contradiction|]. cbn [map new_fc_loop]. rewrite new_fc_loop_some.
  cbn [fc_cur fold_right snd new_cursor c_eid]. unfold fc_cur.
  inversion Hall as [|? ? Hl Hls]; subst.
  rewrite (fold_min_base _ (ent l 0) NULLENTRY Hl). lia.
Qed.

(* ---- FieldCursors.Sort ---- *)
Theorem sort_fcursors_spec fs :
  Permutation (sort_fcursors fs) fs /\
  StronglySorted (fun a b => fc_current a <= fc_current b) (sort_fcursors fs).
Proof.
  split. apply isort_perm.
  pose proof (isort_sorted (fun f => nkey (fc_current f)) fs) as H. unfold sort_fcursors.
  induction H as [|a l Hs IH Hall]; constructor; auto.
  rewrite Forall_forall in *. intros x Hx. specialize (Hall x Hx).
  unfold kle, ole, nkey, lt_okey in Hall. apply N.ltb_ge in Hall. exact Hall.
Qed.

(* a boolean test for sortedness (used for non-vacuity examples and by the correspondence check) *)
Fixpoint sortedb (l : list N) : bool :=
  match l with
  | x :: ((y :: _) as l') => (x <=? y) && sortedb l'
  | _ => true
  end.
Lemma sortedb_ok l : sortedb l = true -> sortedN l.
Proof.
  induction l as [|x l IH]; intros H i j Hij; cbn [length] in Hij; [lia|].
  assert (Hl : sortedb l = true /\ (forall y, In y l -> x <= y)).
  { destruct l as [|y l']; [split; [reflexivity|intros ? []]|].
    cbn [sortedb] in H. apply andb_prop in H. destruct H as [Hxy Hl]. apply N.leb_le in Hxy. split; [exact Hl|].
    intros z Hz. specialize (IH Hl).
    destruct (In_nth _ _ NULLENTRY Hz) as (k & Hk & Hnth).
    specialize (IH 0%nat k). unfold ent in IH. rewrite Hnth in IH.
    cbn [nth] in IH. assert (y <= z) by (apply IH; cbn [length] in *; lia). lia. }
  destruct Hl as [Hl Hmin]. specialize (IH Hl).
  destruct i as [|i]; destruct j as [|j]; unfold ent in *; cbn [nth]; try lia.
  - apply Hmin. apply nth_In. lia.
  - apply IH. lia.
Qed.
