//go:build verif

package main

import (
	"fmt"

	be "github.com/echoface/be_indexer"
	"github.com/echoface/be_indexer/holder/rangeholder"
)

// runRangeHistory inserts the ranges into a fresh RangeIdx, dumps the pieces (before Compile),
// compiles and probes Retrieve at the given points (entries of the piece, nil piece = []).
func runRangeHistory(mn, mx int64, hist [][3]int64, probes []int64) (pieces string, probeLit string, ok bool) {
	rix := rangeholder.NewRangeIdx(mn, mx)
	for _, h := range hist {
		rix.IndexingRange(h[0], h[1], be.EntryID(h[2]))
	}
	ps, es := rix.VerifPieces()
	var pl []string
	for i := range ps {
		pl = append(pl, fmt.Sprintf("(%s, %s, %s)", zl(ps[i][0]), zl(ps[i][1]), nlist(es[i])))
	}
	rix.Compile()
	cps, ces := rix.VerifPieces()
	var out []string
	for _, x := range probes {
		got := "[]"
		if re := rix.Retrieve(x); re != nil {
			for i := range cps {
				if cps[i][0] <= x && x < cps[i][1] {
					got = nlist(ces[i])
				}
			}
			// cross-check the piece Retrieve returned is the one containing x
			if !re.ContainValue(x) {
				got = "[18446744073709551615%N]"
			}
		}
		out = append(out, fmt.Sprintf("(%s, %s)", zl(x), got))
	}
	return listl(pl), listl(out), true
}
