// vh: verification harness for echoface/be_indexer (translator + correspondence runner).
package main

import (
	"fmt"
	"os"

	"verifharness/internal/xlate"
)

func usage() {
	fmt.Fprintln(os.Stderr, "usage: vh xlate <repo> <outdir> | vh cases <prop> <tier> <seed> <outdir>")
	os.Exit(2)
}

func main() {
	if len(os.Args) < 2 {
		usage()
	}
	switch os.Args[1] {
	case "xlate":
		if len(os.Args) != 4 {
			usage()
		}
		problems, err := xlate.Run(os.Args[2], os.Args[3])
		if err != nil {
			fmt.Fprintln(os.Stderr, "xlate:", err)
			os.Exit(1)
		}
		for _, p := range problems {
			fmt.Println("UNTRANSLATABLE:", p)
		}
	case "cases":
		runCases(os.Args[2:])
	case "parse1":
		parse1Main()
	case "race07":
		race07Main(os.Args[2:])
	case "race14":
		race14Main(os.Args[2:])
	default:
		usage()
	}
}
