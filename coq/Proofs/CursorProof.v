From Coq Require Import List NArith Bool Lia Arith.
From BE Require Import Model.Cursor.
Import ListNotations.

Definition sortedN (l : list N) : Prop := forall i j, (i <= j < length l)%nat -> (ent l i <= ent l j)%N.
Definition bounded (l : list N) : Prop := forall i, (i < length l)%nat -> (ent l i < NULLENTRY)%N.
Definition WF (l : list N) (c : cursor) : Prop := (c_pos c <= length l)%nat /\ c_eid c = ent l (c_pos c).

Lemma ent_oob l i : (length l <= i)%nat -> ent l i = NULLENTRY.
Proof. intros. unfold ent. apply nth_overflow. auto. Qed.

Lemma div2_bounds a b : (a < b)%nat -> (a <= Nat.div2 (a + b) < b)%nat.
Proof. intros. rewrite Nat.div2_div. split. apply Nat.div_le_lower_bound; lia. apply Nat.div_lt_upper_bound; lia. Qed.

Section S.
Variables (l : list N) (id : N).
Hypothesis Hs : sortedN l.
Hypothesis Hid : (id <= NULLENTRY)%N.

Lemma gallop_spec fuel oc : forall cur bound,
  (oc <= cur)%nat -> (cur < oc + bound)%nat -> (cur < length l)%nat -> (ent l cur < id)%N ->
  (length l - (oc + bound) <= fuel)%nat ->
  exists cur' right, gallop fuel l id oc cur bound = Some (cur', right) /\
    (oc <= cur' < right)%nat /\ (cur' < length l)%nat /\ (ent l cur' < id)%N /\
    ((right < length l)%nat -> (id <= ent l right)%N).
Proof.
  induction fuel as [|f IH]; intros cur bound H1 H2 H3 H4 Hf; simpl.
  - destruct (Nat.ltb_spec (oc + bound) (length l)); simpl; [lia|].
    exists cur, (oc + bound)%nat. repeat split; auto; lia.
  - destruct (Nat.ltb_spec (oc + bound) (length l)) as [Hlt|Hge]; simpl.
    + destruct (N.ltb_spec (ent l (oc + bound)) id) as [Hl|Hg].
      * apply IH; auto; lia.
      * exists cur, (oc + bound)%nat. repeat split; auto; lia.
    + exists cur, (oc + bound)%nat. repeat split; auto; lia.
Qed.

Lemma bsearch_spec fuel lo : forall cur right,
  (lo <= cur <= right)%nat -> (right <= length l)%nat ->
  (forall i, (lo <= i < cur)%nat -> (ent l i < id)%N) ->
  ((right < length l)%nat -> (id <= ent l right)%N) ->
  (right - cur <= fuel)%nat ->
  exists p, bsearch fuel l id cur right = Some p /\ (cur <= p <= right)%nat /\
    (forall i, (lo <= i < p)%nat -> (ent l i < id)%N) /\ (id <= ent l p)%N.
Proof.
  induction fuel as [|f IH]; intros cur right H1 H2 H3 H4 Hf; simpl.
  - destruct (Nat.ltb_spec cur right); simpl; [lia|]. assert (cur = right) by lia. subst.
    exists right. repeat split; auto; try lia.
    destruct (Nat.eq_dec right (length l)) as [->|]; [rewrite ent_oob; auto|apply H4; lia].
  - destruct (Nat.ltb_spec cur right) as [Hlt|Hge]; simpl.
    + destruct (N.ltb_spec (ent l cur) id) as [Hl|Hg].
      * pose proof (div2_bounds cur right Hlt) as Hm. set (mid := Nat.div2 (cur + right)) in *.
        destruct (N.leb_spec id (ent l mid)) as [Hle|Hgt].
        -- destruct (IH cur mid) as [p [Hp [Hb [Hall Hge']]]]; auto; try lia.
           exists p. repeat split; auto; lia.
        -- destruct (IH (S mid) right) as [p [Hp [Hb [Hall Hge']]]]; auto; try lia.
           { intros i Hi. destruct (Nat.lt_ge_cases i cur); [apply H3; lia|].
             assert (ent l i <= ent l mid)%N by (apply Hs; lia). lia. }
           exists p. repeat split; auto; lia.
      * exists cur. repeat split; auto; lia.
    + assert (cur = right) by lia. subst. exists right. repeat split; auto; try lia.
      destruct (Nat.eq_dec right (length l)) as [->|]; [rewrite ent_oob; auto|apply H4; lia].
Qed.

Theorem skip_to_spec c : WF l c ->
  exists c', skip_to l c id = Some c' /\ WF l c' /\ (c_pos c <= c_pos c')%nat /\
    (forall i, (c_pos c <= i < c_pos c')%nat -> (ent l i < id)%N) /\ (id <= c_eid c')%N /\
    ((id <= c_eid c)%N -> c' = c).
Proof.
  intros [Hpos Heid]. unfold skip_to.
  destruct (N.leb_spec id (c_eid c)) as [Hle|Hgt].
  - exists c. repeat split; auto; try lia.
  - assert (Hlt : (c_pos c < length l)%nat).
    { destruct (Nat.lt_ge_cases (c_pos c) (length l)); auto. rewrite Heid, ent_oob in Hgt by auto. lia. }
    assert (Hc0 : (ent l (c_pos c) < id)%N) by (rewrite <- Heid; auto).
    destruct (gallop_spec (length l) (c_pos c) (c_pos c) 1) as [cur [right [Hg [Hb [Hcl [Hce Hr]]]]]]; auto; try lia.
    rewrite Hg. set (rr := if (length l <? right)%nat then length l else right).
    assert (Hrr : (cur <= rr <= length l)%nat /\ ((rr < length l)%nat -> (id <= ent l rr)%N)).
    { unfold rr. destruct (Nat.ltb_spec (length l) right); split; try lia. }
    destruct (bsearch_spec (length l) (c_pos c) cur rr) as [p [Hp [Hpb [Hall Hge]]]]; try lia; try tauto.
    { intros i Hi. assert (ent l i <= ent l cur)%N by (apply Hs; lia). lia. }
    rewrite Hp. eexists. split; [reflexivity|]. unfold WF. cbn [c_pos c_eid].
    assert (He : (if (length l <=? p)%nat then NULLENTRY else ent l p) = ent l p).
    { destruct (Nat.leb_spec (length l) p); auto. rewrite ent_oob; auto. }
    rewrite He. repeat split; try lia; auto.
Qed.
End S.
Print Assumptions skip_to_spec.
