(* Executable model of roaringidx: builder, the two containers, scanner with hints/Reset.
   roaring64 bitmaps are modelled as strictly increasing lists of uint64 values. *)
From Coq Require Import List NArith ZArith Bool.
From BE Require Import Model.GoTypes Model.GoVal Model.Parsers Model.Index.
From BE Require Gen.IdsGen.
Import ListNotations.
Local Open Scope N_scope.

(* ---------- bitmaps ---------- *)
Definition bitmap := list N.
Fixpoint bm_add (x : N) (b : bitmap) : bitmap :=
  match b with
  | [] => [x]
  | y :: b' => if x <? y then x :: b else if x =? y then b else y :: bm_add x b'
  end.
Definition bm_mem (x : N) (b : bitmap) : bool := existsb (N.eqb x) b.
Definition bm_or (a b : bitmap) : bitmap := fold_left (fun acc x => bm_add x acc) b a.
Definition bm_and (a b : bitmap) : bitmap := filter (fun x => bm_mem x b) a.
Definition bm_andnot (a b : bitmap) : bitmap := filter (fun x => negb (bm_mem x b)) a.
Definition bm_empty (a : bitmap) : bool := match a with [] => true | _ => false end.

(* ---------- containers ---------- *)
Inductive rcont_kind := RDefault | RAc.
Inductive rcontainer :=
| RCDefault (p : parser_kind) (wc : bitmap) (inc exc : list (pid * bitmap))
| RCAc (wc : bitmap) (inc exc : list (text * bitmap)).

Definition new_rcontainer (k : rcont_kind) (p : parser_kind) : rcontainer :=
  match k with RDefault => RCDefault p [] [] [] | RAc => RCAc [] [] [] end.

Definition add_to {K} (eqb : K -> K -> bool) (k : K) (id : N) (m : list (K * bitmap)) : list (K * bitmap) :=
  aupdate eqb k (fun o => match o with Some b => bm_add id b | None => [id] end) m.

Definition rc_add_wildcard (c : rcontainer) (id : N) : rcontainer :=
  match c with
  | RCDefault p wc i e => RCDefault p (bm_add id wc) i e
  | RCAc wc i e => RCAc (bm_add id wc) i e
  end.

(* EncodeExpr *)
Definition rc_encode (c : rcontainer) (id : N) (e : expr) : pres rcontainer :=
  match c with
  | RCDefault p wc inc exc =>
    match e_op e with
    | OpEQ =>
      pbind (parse_value p (e_val e)) (fun ids =>
        if e_incl e then POk (RCDefault p wc (fold_left (fun m v => add_to pid_eqb v id m) ids inc) exc)
        else POk (RCDefault p wc inc (fold_left (fun m v => add_to pid_eqb v id m) ids exc)))
    | _ => PPanic
    end
  | RCAc wc inc exc =>
    pbind (nil_interface (e_val e)) (fun isnil =>
    if isnil then POk c else
    match e_op e with
    | OpEQ =>
      pbind (ac_parse_dict (e_val e)) (fun ks =>
        if e_incl e then POk (RCAc wc (fold_left (fun m k => add_to text_eqb k id m) ks inc) exc)
        else POk (RCAc wc inc (fold_left (fun m k => add_to text_eqb k id m) ks exc)))
    | _ => PPanic
    end)
  end.

(* container Retrieve(values, inout): inout starts empty here (tmpPl is cleared between fields) *)
Definition rc_retrieve (c : rcontainer) (v : gval) : pres bitmap :=
  match c with
  | RCDefault p wc inc exc =>
    pbind (nil_interface v) (fun isnil =>
    if isnil then POk wc else
    pbind (parse_assign p v) (fun ids =>
      let r1 := fold_left (fun acc id => match alookup pid_eqb id inc with Some b => bm_or acc b | None => acc end) ids wc in
      POk (fold_left (fun acc id => match alookup pid_eqb id exc with Some b => bm_andnot acc b | None => acc end) ids r1)))
  | RCAc wc inc exc =>
    pbind (nil_interface v) (fun isnil =>
    if isnil then POk wc else
    pbind (ac_query_text [32] v) (fun t =>
      let matched := fun m : list (text * bitmap) =>
        flat_map (fun kb => match fst kb with [] => [] | _ => if kw_found (fst kb) t then [snd kb] else [] end) m in
      let r1 := fold_left bm_or (matched inc) wc in
      POk (fold_left bm_andnot (matched exc) r1)))
  end.

(* ---------- builder ---------- *)
Record rbuilder := { rb_conts : list (fname * rcontainer); rb_maxconj : Z }.
Definition new_rbuilder : rbuilder := {| rb_conts := []; rb_maxconj := 1 |}.
Definition rb_configure (b : rbuilder) (f : fname) (k : rcont_kind) (p : parser_kind) : rbuilder :=
  {| rb_conts := aupdate N.eqb f (fun _ => new_rcontainer k p) (rb_conts b); rb_maxconj := rb_maxconj b |}.

(* one field of one conjunction *)
Fixpoint encode_exprs (c : rcontainer) (id : N) (es : list expr) (add_wc : bool) : pres (rcontainer * bool) :=
  match es with
  | [] => POk (c, add_wc)
  | e :: es' => pbind (rc_encode c id e) (fun c' => encode_exprs c' id es' (add_wc && negb (e_incl e)))
  end.

Fixpoint encode_fields (conts : list (fname * rcontainer)) (id : N) (cj : conj) : list (fname * rcontainer) * pres unit :=
  match conts with
  | [] => ([], POk tt)
  | (f, c) :: rest =>
    match alookup N.eqb f cj with
    | None | Some [] =>
      let '(rest', r) := encode_fields rest id cj in ((f, rc_add_wildcard c id) :: rest', r)
    | Some es =>
      match encode_exprs c id es true with
      | POk (c', wc) =>
        let c'' := if wc then rc_add_wildcard c' id else c' in
        let '(rest', r) := encode_fields rest id cj in ((f, c'') :: rest', r)
      | PErr => ((f, c) :: rest, PErr) | PPanic => ((f, c) :: rest, PPanic)
      | PDiverge => ((f, c) :: rest, PDiverge) | PUnmodelled => ((f, c) :: rest, PUnmodelled)
      end
    end
  end.

Fixpoint radd_conjs (b : rbuilder) (d : Z) (ics : list (Z * conj)) : rbuilder * add_out :=
  match ics with
  | [] => (b, AddOk)
  | (i, cj) :: rest =>
    match IdsGen.NewConjunctionID i d with
    | None => (b, AddErr)
    | Some id =>
      if negb (forallb (fun fe => match alookup N.eqb (fst fe) (rb_conts b) with Some _ => true | None => false end) cj)
      then (b, AddErr)
      else
        let '(conts', r) := encode_fields (rb_conts b) id cj in
        let b' := {| rb_conts := conts'; rb_maxconj := rb_maxconj b |} in
        match r with
        | POk _ => radd_conjs b' d rest
        | PErr => (b', AddErr) | PPanic => (b', AddPanic) | PDiverge => (b', AddDiverge) | PUnmodelled => (b', AddUnmodelled)
        end
    end
  end.

Definition radd_document (b : rbuilder) (d : doc) : rbuilder * add_out :=
  match d_conjs d with
  | [] => (b, AddErr)
  | _ =>
    match radd_conjs b (d_id d) (indexed_from 0%Z (d_conjs d)) with
    | (b', AddOk) => ({| rb_conts := rb_conts b'; rb_maxconj := Z.max (Z.of_nat (length (d_conjs d))) (rb_maxconj b') |}, AddOk)
    | r => r
    end
  end.

Fixpoint radd_documents (b : rbuilder) (ds : list doc) : rbuilder * list add_out :=
  match ds with
  | [] => (b, [])
  | d :: ds' => let '(b1, o) := radd_document b d in
                let '(b2, os) := radd_documents b1 ds' in (b2, o :: os)
  end.

(* ---------- scanner ---------- *)
Record scanner := { sc_inited : bool; sc_ended : bool; sc_res : bitmap }.
Definition fresh_scanner : scanner := {| sc_inited := false; sc_ended := false; sc_res := [] |}.

Definition sc_is_ended (s : scanner) : bool := sc_inited s && bm_empty (sc_res s).

(* mergeFieldResult *)
Definition sc_merge (s : scanner) (pl : bitmap) : scanner :=
  let s' := if sc_is_ended s then s
            else if negb (sc_inited s) then {| sc_inited := true; sc_ended := sc_ended s; sc_res := bm_or (sc_res s) pl |}
            else {| sc_inited := true; sc_ended := sc_ended s; sc_res := bm_and (sc_res s) pl |} in
  {| sc_inited := sc_inited s'; sc_ended := bm_empty (sc_res s'); sc_res := sc_res s' |}.

(* retrieve: the fields in some order (Go map order); an error leaves the scanner dirty *)
Fixpoint sc_retrieve (conts : list (fname * rcontainer)) (q : assignment) (s : scanner) : pres scanner :=
  match conts with
  | [] => POk s
  | (f, c) :: rest =>
    if sc_ended s then POk s else
    let v := match alookup N.eqb f q with Some v => v | None => VNil end in
    pbind (rc_retrieve c v) (fun pl => sc_retrieve rest q (sc_merge s pl))
  end.

(* WithHint: None = panic (scanner already primed) *)
Definition sc_with_hint (maxconj : Z) (s : scanner) (hints : list Z) : option scanner :=
  if sc_inited s then None else
  let ids := flat_map (fun h =>
               flat_map (fun i => match IdsGen.NewConjunctionID (Z.of_nat i) h with Some id => [id] | None => [] end)
                        (seq 0 (Z.to_nat maxconj))) hints in
  Some {| sc_inited := true; sc_ended := sc_ended s; sc_res := fold_left (fun acc x => bm_add x acc) ids (sc_res s) |}.

(* documents of a raw result: uint64(conjID.DocID()) as a bitmap *)
Definition docs_of_raw (raw : bitmap) : bitmap :=
  fold_left (fun acc id => bm_add (Z.to_N (wrap_u64 (IdsGen.ConjunctionID_DocID id))) acc) raw [].
