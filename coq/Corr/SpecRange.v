(* RangeIdx insert histories (C06): specification leg. *)
From Coq Require Import List NArith ZArith Bool.
From BE Require Import Corr.Common.
Import ListNotations.
Local Open Scope Z_scope.

Record hcase := {
  h_min : Z; h_max : Z;
  h_hist : list (Z * Z * N);                                            (* left, right, entry id, in insertion order *)
  h_obs : option (list (Z * Z * list N) * list (Z * list N))            (* pieces before Compile; Retrieve probes after *)
}.

(* entries of the ranges of the history that contain x, sorted (posting lists are sorted at Compile) *)
Definition covering_sorted (x : Z) (h : list (Z * Z * N)) : list N :=
  sortN (flat_map (fun '(l, r, e) => let r' := if l =? r then r + 1 else r in
                                     if (l <=? x) && (x <? r') then [e] else []) h).

(* signatures: 50 a probe returns other entries than the covering ranges', 51 pieces are not a contiguous cover *)
Fixpoint chain_b (lo hi : Z) (ps : list (Z * Z * list N)) : bool :=
  match ps with
  | [] => lo =? hi
  | (l, r, _) :: rest => (l =? lo) && (l <? r) && chain_b r hi rest
  end.

Definition spec_verdict (c : hcase) : bool * bool * N :=
  let dom := (h_min c <? h_max c) && forallb (fun '(l, r, _) => (h_min c <=? l) && (l <=? r) && (r <=? h_max c)) (h_hist c) in
  match h_obs c with
  | None => (true, false, 0%N)
  | Some (pieces, probes) =>
    if negb dom then (true, false, 0%N)
    else if negb (chain_b (h_min c) (h_max c) pieces) then (false, true, 51%N)
    else (forallb (fun '(x, es) => if (h_min c <=? x) && (x <? h_max c)
                                   then eqb_list N.eqb es (covering_sorted x (h_hist c))
                                   else match es with [] => true | _ => false end) probes, true, 50%N)
  end.

Definition spec_only (c : hcase) : verdict := let '(s, d, g) := spec_verdict c in mk_verdict true s d g.
Definition run (cs : list hcase) := check_all spec_only cs.
