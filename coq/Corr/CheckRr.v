(* Roaring index cases: model leg (Model/Roaring.v against the real code). *)
From Coq Require Import List NArith ZArith Bool.
From BE Require Import Model.Spec Corr.Common Corr.SpecE2E.
From BE Require Export Corr.SpecRr.
Import ListNotations.
Local Open Scope Z_scope.

Definition model_rbuilder (c : rcase) : rbuilder :=
  fold_left (fun b f => rb_configure b (fst f) (fst (snd f)) (snd (snd f))) (rk_fields c) new_rbuilder.

(* scanner states of the model: None = dirty after an error (depends on Go's map order) *)
Fixpoint get_sc (i : N) (scs : list (N * option scanner)) : option scanner :=
  match scs with [] => Some fresh_scanner | (j, s) :: r => if N.eqb i j then s else get_sc i r end.

Definition model_step (b : rbuilder) (s : option scanner) (op : rop) (r : rimpl) : option bool * option scanner :=
  match op with
  | ROReset => (Some (match r with RIUnit => true | _ => false end), Some fresh_scanner)
  | _ =>
    match s with
    | None => (None, None)
    | Some sc =>
      match op with
      | ROHint hs =>
        match sc_with_hint (rb_maxconj b) sc hs, r with
        | Some sc', RIUnit => (Some true, Some sc')
        | None, RIPanic => (Some true, Some sc)
        | Some sc', _ => (Some false, Some sc')
        | None, _ => (Some false, Some sc)
        end
      | RORaw => (Some (match r with RIRaw l => eqb_list N.eqb l (sc_res sc) | _ => false end), s)
      | RORetrieve q | RORetrieveDocs q =>
        match sc_retrieve (rb_conts b) q sc, r with
        | POk sc', RIDocs l => (Some (eqb_list N.eqb l (docs_of_raw (sc_res sc'))), Some sc')
        | POk sc', RIDocSet l =>
          (Some (eqb_list N.eqb (setN (map u64_of l)) (docs_of_raw (sc_res sc')) && nodupZ l), Some sc')
        | PErr, RIErr => (Some true, None)
        | PPanic, RIPanic => (Some true, None)
        | PUnmodelled, _ => (None, None)
        (* whether a retrieval with a failing field reports the error depends on Go's map order: when
           another field's result is already empty the scanner stops early and returns nothing *)
        | PErr, RIDocs [] | PErr, RIDocSet [] => (Some true, None)
        | POk sc', RIErr =>
          (Some (bm_empty (sc_res sc') &&
                 existsb (fun fc => match rc_retrieve (snd fc) (match alookup N.eqb (fst fc) q with Some v => v | None => VNil end) with
                                    | POk _ => false | _ => true end) (rb_conts b)), None)
        | _, _ => (Some false, None)
        end
      | ROReset => (Some true, Some fresh_scanner)
      end
    end
  end.

Fixpoint model_ops (b : rbuilder) (scs : list (N * option scanner)) (ops : list (N * rop * rimpl)) : list (option bool) :=
  match ops with
  | [] => []
  | (i, op, r) :: rest =>
    let '(v, s') := model_step b (get_sc i scs) op r in
    v :: model_ops b (aupdate N.eqb i (fun _ => s') scs) rest
  end.

Fixpoint all_ok (l : list (option bool)) : bool * bool :=
  match l with
  | [] => (true, true)
  | Some b :: l' => let '(a, m) := all_ok l' in (b && a, m)
  | None :: l' => let '(a, _) := all_ok l' in (a, false)
  end.

Definition add_matches (m : add_out) (i : iadd) : option bool :=
  match m, i with
  | AddOk, IAddOk | AddErr, IAddErr | AddPanic, IAddPanic => Some true
  | AddUnmodelled, _ => None
  | _, _ => Some false
  end.

Definition model_verdict (c : rcase) : bool * bool :=
  let '(b, outs) := radd_documents (model_rbuilder c) (map fst (rk_docs c)) in
  let adds := map (fun oi => add_matches (fst oi) (snd oi)) (combine outs (map snd (rk_docs c))) in
  (* a failed AddDocument leaves entries that depend on Go's map iteration order: compare operations
     only when every document was accepted *)
  if all_accepted c then all_ok (adds ++ model_ops b [] (rk_ops c)) else all_ok adds.

Definition check (c : rcase) : verdict :=
  let '(s, d, g) := spec_verdict c in
  let '(m, modelled) := model_verdict c in
  mk_verdict (m || negb modelled) s (d && modelled) g.
Definition run (cs : list rcase) := check_all check cs.
