package main

import (
	"crypto/sha256"
	"encoding/hex"
	"encoding/json"
	"fmt"
	"os"
	"path/filepath"
	"sort"
	"strconv"
	"strings"
)

// Rand is splitmix64: every random choice of a run derives from VERIF_SEED.
type Rand struct{ s uint64 }

func (r *Rand) U64() uint64 {
	r.s += 0x9E3779B97F4A7C15
	z := r.s
	z = (z ^ (z >> 30)) * 0xBF58476D1CE4E5B9
	z = (z ^ (z >> 27)) * 0x94D049BB133111EB
	return z ^ (z >> 31)
}
func (r *Rand) Intn(n int) int {
	if n <= 0 {
		return 0
	}
	return int(r.U64() % uint64(n))
}
func (r *Rand) Bool() bool        { return r.U64()&1 == 1 }
func (r *Rand) Chance(p int) bool { return r.Intn(100) < p } // p percent
func (r *Rand) I64(lo, hi int64) int64 {
	span := uint64(hi-lo) + 1
	if span == 0 {
		return int64(r.U64())
	}
	return lo + int64(r.U64()%span)
}
func pick[T any](r *Rand, xs []T) T { return xs[r.Intn(len(xs))] }

// Coq literal helpers
func zl(v int64) string {
	if v < 0 {
		return "(" + strconv.FormatInt(v, 10) + ")%Z"
	}
	return strconv.FormatInt(v, 10) + "%Z"
}
func nl(v uint64) string { return strconv.FormatUint(v, 10) + "%N" }
func natl(v int) string  { return strconv.Itoa(v) + "%nat" }
func bl(b bool) string {
	if b {
		return "true"
	}
	return "false"
}
func listl(xs []string) string { return "[" + strings.Join(xs, "; ") + "]" }
func zlist(xs []int64) string {
	s := make([]string, len(xs))
	for i, x := range xs {
		s[i] = zl(x)
	}
	return listl(s)
}
func nlist(xs []uint64) string {
	s := make([]string, len(xs))
	for i, x := range xs {
		s[i] = nl(x)
	}
	return listl(s)
}

// execResult is what running one case against the real code yields.
type execResult struct {
	Coq        string // Gallina literal: the case with the implementation's observables
	NonTrivial bool   // by the property's stated rule
	Dist       string // bucket for the distribution summary
	Summary    interface{}
	Family     string // which case format (header) the literal belongs to; "" = the property's default
}

type propDef struct {
	header    string            // Coq imports of the cases file
	headers   map[string]string // further case families (execResult.Family -> imports)
	rule      string
	shardSize int
	gen       func(tier string, r *Rand, add func(in interface{}))
	exec      func(raw json.RawMessage) (execResult, error)
	// extra is run once per invocation for checks that are not case shaped (race runs ...);
	// it returns additional evidence fields and violation descriptions.
	extra func(tier string, seed uint64, outdir string) (map[string]interface{}, []string)
}

var props = map[string]*propDef{}

type metaOut struct {
	Property           string                 `json:"property"`
	Tier               string                 `json:"tier"`
	Seed               uint64                 `json:"seed"`
	Evaluations        int                    `json:"evaluations"`
	DistinctNontrivial int                    `json:"distinct_nontrivial"`
	Distinct           int                    `json:"distinct"`
	Rule               string                 `json:"rule"`
	Samples            []interface{}          `json:"samples"`
	Distribution       map[string]int         `json:"distribution"`
	Shards             []string               `json:"shards"`
	ShardSize          int                    `json:"shard_size"`
	ShardIndex         map[string][]int       `json:"shard_index"`
	Extra              map[string]interface{} `json:"extra,omitempty"`
	ExtraViolations    []string               `json:"extra_violations,omitempty"`
	ExecErrors         []string               `json:"exec_errors,omitempty"`
	ReexecDiffered     int                    `json:"reexecutions_with_other_observables"`
}

func writeShard(outdir, prop, fam string, k int, header string, lits []string) (string, error) {
	name := fmt.Sprintf("cases_%s_%s%03d.v", prop, fam, k)
	var sb strings.Builder
	sb.WriteString("(* written by vh: cases and the observables of the real code; evaluated by the model in Coq *)\n")
	sb.WriteString("From Coq Require Import List NArith ZArith Bool String.\nImport ListNotations.\n")
	sb.WriteString(header + "\n")
	sb.WriteString("Definition cases := [\n  ")
	sb.WriteString(strings.Join(lits, ";\n  "))
	sb.WriteString("\n].\n")
	sb.WriteString("Definition verdicts := Eval vm_compute in run cases.\nPrint verdicts.\n")
	return name, os.WriteFile(filepath.Join(outdir, name), []byte(sb.String()), 0o644)
}

func runCases(args []string) {
	if len(args) < 4 {
		usage()
	}
	prop, tier, outdir := args[0], args[1], args[3]
	seed, err := strconv.ParseUint(args[2], 10, 64)
	if err != nil {
		usage()
	}
	pd := props[prop]
	if pd == nil {
		fmt.Fprintln(os.Stderr, "unknown property", prop)
		os.Exit(2)
	}
	if err := os.MkdirAll(outdir, 0o755); err != nil {
		panic(err)
	}
	old, _ := filepath.Glob(filepath.Join(outdir, "cases_*.v"))
	for _, o := range old {
		os.Remove(o)
	}
	var inputs []json.RawMessage
	if tier == "replay" { // args[4] = file holding a JSON array of inputs (or one input)
		data, err := os.ReadFile(args[4])
		if err != nil {
			panic(err)
		}
		if err := json.Unmarshal(data, &inputs); err != nil {
			inputs = []json.RawMessage{json.RawMessage(data)}
		}
	} else if pd.gen != nil {
		r := &Rand{s: seed*0x9E3779B97F4A7C15 + 0x1234567}
		pd.gen(tier, r, func(in interface{}) {
			raw, err := json.Marshal(in)
			if err != nil {
				panic(err)
			}
			inputs = append(inputs, raw)
		})
	}
	meta := metaOut{Property: prop, Tier: tier, Seed: seed, Rule: pd.rule, Distribution: map[string]int{}, ShardSize: pd.shardSize}
	if meta.ShardSize == 0 {
		meta.ShardSize = 400
	}
	distinct := map[string]bool{}
	distinctNT := map[string]bool{}
	lits := map[string][]string{}
	idxs := map[string][]int{}
	nshard := map[string]int{}
	meta.ShardIndex = map[string][]int{}
	inF, err := os.Create(filepath.Join(outdir, "inputs.jsonl"))
	if err != nil {
		panic(err)
	}
	flush := func(fam string) {
		if len(lits[fam]) == 0 {
			return
		}
		hdr := pd.header
		if fam != "" {
			hdr = pd.headers[fam]
		}
		name, err := writeShard(outdir, prop, fam, nshard[fam], hdr, lits[fam])
		if err != nil {
			panic(err)
		}
		nshard[fam]++
		meta.Shards = append(meta.Shards, name)
		meta.ShardIndex[name] = idxs[fam]
		lits[fam], idxs[fam] = nil, nil
	}
	// Every input is executed three times against the real code (the second and third time with lists built in reused
	// caller buffers).  The observables are canonical, so the three
	// runs of a correct library agree; where the library's behaviour depends on something the input does not fix
	// (Go map iteration order, what a pool hands out) a wrong answer may show in only some runs: a run whose
	// observables differ from the first is evaluated as one more case.
	noReexec := os.Getenv("VERIF_NO_REEXEC") != ""
	var queue []json.RawMessage
	reexec := map[string]string{}
	for _, raw := range inputs {
		queue = append(queue, raw)
	}
	for qi := 0; qi < len(queue); qi++ {
		raw := queue[qi]
		res, err := pd.exec(raw)
		if err != nil {
			meta.ExecErrors = append(meta.ExecErrors, err.Error())
			continue
		}
		if qi < len(inputs) && !noReexec {
			for k := 0; k < 2; k++ {
				// the second and third run as a caller that builds its lists in reused buffers (goval.go callerSlice)
				callerReusesBuffers = true
				again, e2 := pd.exec(raw)
				callerReusesBuffers = false
				if e2 == nil && again.Coq != res.Coq {
					meta.ReexecDiffered++
					reexec[string(raw)] = again.Coq
					queue = append(queue, raw)
					break
				}
			}
		} else if lit, ok := reexec[string(raw)]; ok && qi >= len(inputs) {
			res.Coq = lit // the differing observables recorded above (a further run need not reproduce them)
		}
		inF.Write(raw)
		inF.Write([]byte("\n"))
		gi := meta.Evaluations
		meta.Evaluations++
		h := sha256.Sum256(raw)
		key := hex.EncodeToString(h[:8])
		distinct[key] = true
		if res.NonTrivial {
			distinctNT[key] = true
		}
		meta.Distribution[res.Dist]++
		if len(meta.Samples) < 5 && (res.NonTrivial || meta.Evaluations <= 2) {
			var in interface{}
			json.Unmarshal(raw, &in)
			meta.Samples = append(meta.Samples, map[string]interface{}{"input": in, "observed": res.Summary})
		}
		lits[res.Family] = append(lits[res.Family], res.Coq)
		idxs[res.Family] = append(idxs[res.Family], gi)
		if len(lits[res.Family]) >= meta.ShardSize {
			flush(res.Family)
		}
	}
	for fam := range lits {
		flush(fam)
	}
	sort.Strings(meta.Shards)
	inF.Close()
	meta.Distinct = len(distinct)
	meta.DistinctNontrivial = len(distinctNT)
	if pd.extra != nil && tier != "replay" {
		meta.Extra, meta.ExtraViolations = pd.extra(tier, seed, outdir)
	}
	if tier != "replay" {
		meta.ExtraViolations = append(meta.ExtraViolations, e2eViolations...)
	}
	sort.Strings(meta.ExecErrors)
	data, _ := json.MarshalIndent(meta, "", " ")
	if err := os.WriteFile(filepath.Join(outdir, "meta.json"), data, 0o644); err != nil {
		panic(err)
	}
}
